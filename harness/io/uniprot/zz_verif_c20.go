//go:build verif_sym || verif_native

package uniprot

// C20: Uniprot streaming delivers every entry once, in order, and terminates.
//
// verif:bound C20 date-attribute clause: the xs:date text unmarshaler of the entry attributes (created / modified) on '2000-05-30' with 0..1 symbolic XML white-space bytes (space, newline, tab, CR) on either side: accepted (a refused attribute would abort the entry and end the stream); time.Parse runs natively on every feasible value
// verif:bound C20 documents given as event scripts of length 0..3 (quick) / 0..4 (thorough) over {entry, entry damaged inside, other start element, other token, syntax error, reader failing with io.ErrUnexpectedEOF (truncated compressed stream), bare '&' between elements}; channel capacities 0, 1, 100; two consumer shapes (entries first and errors afterwards - the documented usage - or both concurrently); schedules at synchronisation-point granularity: default, LIFO mirror and all deviating at <= 2 of the first 24 choice points
// verif:bound C20 two-streams clause: two one- or two-event documents parsed one after the other in the same process
// verif:assume C20 encoding/xml.Decoder is a stub driven by the event script: Token returns the scripted tokens, after the first syntax error every later Token/DecodeElement returns that error, end of script is io.EOF; DecodeElement delivers an opaque entry stamped with its ordinal. Natively the same script is laid out as a real Uniprot XML document and read by the real decoder (replay)
// verif:bound C20 outside the claim: the content of an entry (accessions, names, sequence text: reflection-driven unmarshalling), gzip, Read's file handling, truncation at every byte offset (only element-level damage), the race detector

func c20Script() string {
	n := vChoice(vTier(4, 5))
	ev := "ESTXFZA"
	s := ""
	for i := 0; i < n; i++ {
		s += string(ev[vChoice(len(ev))])
	}
	return s
}

func c20Expected(script string) (entries int, damaged bool) {
	for i := 0; i < len(script); i++ {
		switch script[i] {
		case 'E':
			entries++
		case 'X', 'F', 'Z', 'A':
			return entries, true
		}
	}
	return entries, false
}

func Harness_C20_Streaming() {
	vSchedules(2)
	script := c20Script()
	capacity := []int{0, 1, 100}[vChoice(3)]
	concurrent := vChoice(2) == 1
	want, damaged := c20Expected(script)
	if capacity < 100 && !concurrent && damaged {
		// the documented usage needs the error channel to hold every error until the
		// entries are drained: with a small capacity the parser may legitimately wait
		vAssume(false)
	}
	entries := make(chan Entry, capacity)
	errs := make(chan error, capacity)
	vTerminates(60000)
	go Parse(vXMLScript(script), entries, errs)
	var versions []int
	nerr := 0
	if concurrent {
		done := make(chan int)
		go func() {
			k := 0
			for range errs {
				k++
			}
			done <- k
		}()
		for e := range entries {
			versions = append(versions, e.Version)
		}
		nerr = <-done
	} else {
		for e := range entries {
			versions = append(versions, e.Version)
		}
		for range errs {
			nerr++
		}
	}
	// both channels are closed now (the range loops ended)
	vAssert(len(versions) >= want, "every-entry-before-the-damage-is-delivered")
	for i := 0; i < want && i < len(versions); i++ {
		vAssert(versions[i] == i+1, "entries-in-document-order-exactly-once")
	}
	if !damaged {
		vAssert(len(versions) == want, "exactly-the-entries-of-the-document")
		vAssert(nerr == 0, "no-error-for-a-well-formed-document")
	} else {
		vAssert(nerr >= 1, "damage-is-reported")
	}
	vCover("C20 damaged after an entry", damaged && want >= 1)
	vCover("C20 three entries", !damaged && want == 3)
}

// two streams parsed one after the other in the same process: nothing carries over
// the date attributes of an entry: XML white space around an xs:date is collapsed, so a
// wrapped (pretty-printed) attribute value is still a date
func Harness_C20_DateAttribute() {
	ws := " \n\t\r"
	left, right := vBytes(vChoice(2), ws), vBytes(vChoice(2), ws)
	var d xsdDate
	var err error
	panicked := vPanics(func() { err = d.UnmarshalText([]byte(left + "2000-05-30" + right)) })
	vAssert(!panicked, "date-attribute-does-not-panic")
	vAssert(err == nil, "date-attribute-padded-with-xml-white-space-is-accepted")
}

func Harness_C20_TwoStreams() {
	ev := "EXFZA"
	first := string(ev[vChoice(len(ev))])
	second := string(ev[vChoice(len(ev))])
	if vChoice(2) == 1 {
		second = "E" + second
	}
	for round, script := range []string{first, second} {
		want, damaged := c20Expected(script)
		entries := make(chan Entry, 100)
		errs := make(chan error, 100)
		vTerminates(60000)
		go Parse(vXMLScript(script), entries, errs)
		n := 0
		for range entries {
			n++
		}
		nerr := 0
		for range errs {
			nerr++
		}
		tag := "first-stream-"
		if round == 1 {
			tag = "second-stream-"
		}
		vAssert(n >= want, tag+"every-entry-before-the-damage-is-delivered")
		if damaged {
			vAssert(nerr >= 1, tag+"damage-is-reported")
		} else {
			vAssert(nerr == 0 && n == want, tag+"exactly-the-entries-of-the-document")
		}
	}
}
