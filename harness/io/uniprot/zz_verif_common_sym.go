//go:build verif_sym

package uniprot

import "io"

// vXMLScript is intercepted by the engine: the returned reader carries the event
// script that the xml.Decoder stub replays.
func vXMLScript(script string) io.Reader { panic("verif primitive") }
