//go:build verif_native

package uniprot

import (
	"io"
	"strconv"
	"strings"
)

// vXMLScript, natively: a real Uniprot XML document laid out from the event script,
// read by the real encoding/xml decoder.
func vXMLScript(script string) io.Reader {
	var b strings.Builder
	b.WriteString("<?xml version=\"1.0\" encoding=\"UTF-8\"?>\n<uniprot xmlns=\"http://uniprot.org/uniprot\">\n")
	n := 0
	damaged := false
	for i := 0; i < len(script) && !damaged; i++ {
		switch script[i] {
		case 'E':
			n++
			b.WriteString("<entry dataset=\"Swiss-Prot\" created=\"2000-05-30\" modified=\"2019-06-05\" version=\"" + strconv.Itoa(n) + "\"><accession>A" + strconv.Itoa(n) + "</accession><name>N" + strconv.Itoa(n) + "</name><sequence length=\"3\" mass=\"400\" checksum=\"C\" modified=\"2000-05-30\" version=\"1\">MKV</sequence></entry>\n")
		case 'F':
			b.WriteString("<entry dataset=\"Swiss-Prot\" version=\"99\"><accession>A</oops>")
			damaged = true
		case 'S':
			b.WriteString("<copyright>text</copyright>")
		case 'T':
			b.WriteString("\n  \n")
		case 'X':
			b.WriteString("<a></b>")
			damaged = true
		case 'A':
			// a strict decoder stops here; the rest of the document is laid out regardless
			b.WriteString("\n R&D \n")
		case 'Z':
			// the underlying (decompressing) reader fails: truncated stream
			return io.MultiReader(strings.NewReader(b.String()), vFailingReader{})
		}
	}
	if !damaged {
		b.WriteString("</uniprot>\n")
	}
	return strings.NewReader(b.String())
}

type vFailingReader struct{}

func (vFailingReader) Read(p []byte) (int, error) { return 0, io.ErrUnexpectedEOF }
