//go:build verif_sym || verif_native

package genbank

// C02: feature sequences follow INSDC location semantics for every location.
//
// verif:bound C02 location trees: leaves = every span a..b and single base over a parent of 4 (quick) / 6 (thorough) bases, with every combination of partial markers; complement of any leaf; join with 2..3 (quick) / 2..4 (thorough) operands drawn from a reduced operand set (8 leaves and their complements), complement(join(..)), join containing complement(join(..)), join nested inside join; at most 3 operators, nesting depth 3
// verif:bound C02 parent bases symbolic over the 15 IUPAC codes in lower case (as GenBank writes them): one path decides a location tree for every parent sequence
// verif:bound C02 record-level clause: joins of 2..6 operands (optionally complemented) written on 1..4 lines of a feature table, read with Parse over a 12-base symbolic parent
// verif:bound C02 flag-less clause: 1..3 sub-locations without the Join flag at the root or as an operand of a join
// verif:bound C02 outside the claim: parents longer than 6 bases (coordinates with several digits are covered by translator-validation vectors only), joins with more than 4 operands, nesting depth 4
// verif:assume C02 the location tree is enumerated (forked); text -> structure is executed concretely per tree, the solver decides the base-level clauses for all parents

import (
	"strconv"
	"strings"

	"github.com/TimothyStiles/poly"
)

type c02Node struct {
	kind     int // 0 span, 1 single, 2 complement, 3 join
	a, b     int // 1-based inclusive
	p5, p3   bool
	wrap     bool // complement assembled as a wrapper node
	children []*c02Node
}

func (n *c02Node) text() string {
	switch n.kind {
	case 0:
		s := ""
		if n.p5 {
			s += "<"
		}
		s += strconv.Itoa(n.a) + ".."
		if n.p3 {
			s += ">"
		}
		return s + strconv.Itoa(n.b)
	case 1:
		return strconv.Itoa(n.a)
	case 2:
		return "complement(" + n.children[0].text() + ")"
	}
	var parts []string
	for _, c := range n.children {
		parts = append(parts, c.text())
	}
	return "join(" + strings.Join(parts, ",") + ")"
}

const c02Comp = "acgtrykmnswbvdh" // code
const c02CompTo = "tgcayrmknswvbhd" // complement

func c02CompTable() string {
	t := make([]byte, 256)
	for i := 0; i < len(c02Comp); i++ {
		t[c02Comp[i]] = c02CompTo[i]
		t[c02Comp[i]-32] = c02CompTo[i] - 32
	}
	return string(t)
}

func c02RC(s string, tab string) string {
	b := make([]byte, len(s))
	for i := 0; i < len(s); i++ {
		b[len(s)-1-i] = vTable(tab, s[i])
	}
	return string(b)
}

// the INSDC reading of a location tree
func (n *c02Node) eval(parent, tab string) string {
	switch n.kind {
	case 0:
		return parent[n.a-1 : n.b]
	case 1:
		return parent[n.a-1 : n.a]
	case 2:
		return c02RC(n.children[0].eval(parent, tab), tab)
	}
	s := ""
	for _, c := range n.children {
		s += c.eval(parent, tab)
	}
	return s
}

func (n *c02Node) hasP3() bool {
	if n.p3 {
		return true
	}
	for _, c := range n.children {
		if c.hasP3() {
			return true
		}
	}
	return false
}

func (n *c02Node) hasP5() bool {
	if n.p5 {
		return true
	}
	for _, c := range n.children {
		if c.hasP5() {
			return true
		}
	}
	return false
}

func (n *c02Node) toLoc() poly.Location {
	switch n.kind {
	case 0:
		return poly.Location{Start: n.a - 1, End: n.b, FivePrimePartial: n.p5, ThreePrimePartial: n.p3}
	case 1:
		return poly.Location{Start: n.a - 1, End: n.a}
	case 2:
		l := n.children[0].toLoc()
		if n.wrap {
			// complement written as a wrapper around its operand (a shape GetSequence and the
			// writer accept as well)
			return poly.Location{Complement: true, SubLocations: []poly.Location{l}}
		}
		l.Complement = true
		return l
	}
	l := poly.Location{Join: true}
	for _, c := range n.children {
		l.SubLocations = append(l.SubLocations, c.toLoc())
	}
	return l
}

// strict INSDC recogniser + evaluator for written text (concrete text, symbolic parent)
type c02Parser struct {
	s      string
	pos    int
	p5, p3 bool
}

func (p *c02Parser) num() (int, bool) {
	st := p.pos
	for p.pos < len(p.s) && p.s[p.pos] >= '0' && p.s[p.pos] <= '9' {
		p.pos++
	}
	if st == p.pos || p.s[st] == '0' {
		return 0, false
	}
	v, _ := strconv.Atoi(p.s[st:p.pos])
	return v, true
}

func (p *c02Parser) lit(l string) bool {
	if strings.HasPrefix(p.s[p.pos:], l) {
		p.pos += len(l)
		return true
	}
	return false
}

func (p *c02Parser) loc(parent, tab string) (string, bool) {
	if p.lit("complement(") {
		s, ok := p.loc(parent, tab)
		if !ok || !p.lit(")") {
			return "", false
		}
		return c02RC(s, tab), true
	}
	if p.lit("join(") {
		out := ""
		cnt := 0
		for {
			s, ok := p.loc(parent, tab)
			if !ok {
				return "", false
			}
			out += s
			cnt++
			if p.lit(",") {
				continue
			}
			break
		}
		if cnt < 2 || !p.lit(")") {
			return "", false
		}
		return out, true
	}
	if p.lit("<") {
		p.p5 = true
	}
	a, ok := p.num()
	if !ok || a > len(parent) {
		return "", false
	}
	if !p.lit("..") {
		return parent[a-1 : a], true
	}
	if p.lit(">") {
		p.p3 = true
	}
	b, ok := p.num()
	if !ok || b < a || b > len(parent) {
		return "", false
	}
	return parent[a-1 : b], true
}

// c02Leaf draws any leaf over a parent of length L.
func c02Leaf(L int) *c02Node {
	if vChoice(2) == 1 {
		return &c02Node{kind: 1, a: 1 + vChoice(L)}
	}
	a := 1 + vChoice(L)
	b := a + vChoice(L-a+1)
	return &c02Node{kind: 0, a: a, b: b, p5: vChoice(2) == 1, p3: vChoice(2) == 1}
}

// c02Operand draws a join operand from the reduced set.
func c02Operand(L int) *c02Node {
	small := []*c02Node{
		{kind: 0, a: 1, b: 2}, {kind: 0, a: 2, b: 2}, {kind: 0, a: 3, b: L}, {kind: 0, a: L, b: L},
		{kind: 1, a: 3}, {kind: 0, a: 1, b: 3, p5: true}, {kind: 0, a: 2, b: L, p3: true}, {kind: 1, a: 1},
	}
	n := small[vChoice(len(small))]
	if vChoice(2) == 1 {
		return &c02Node{kind: 2, children: []*c02Node{n}}
	}
	return n
}

func c02Tree(L int) *c02Node {
	switch vChoice(5) {
	case 4:
		// a join nested inside a join, with a parenthesised operand in first / last position
		inner := &c02Node{kind: 3, children: []*c02Node{c02Operand(L), c02Plain(L)}}
		if vChoice(2) == 1 {
			inner.children[0], inner.children[1] = inner.children[1], inner.children[0]
		}
		if vChoice(2) == 1 {
			return &c02Node{kind: 3, children: []*c02Node{c02Plain(L), inner}}
		}
		return &c02Node{kind: 3, children: []*c02Node{inner, c02Plain(L)}}
	case 0:
		return c02Leaf(L)
	case 1:
		return &c02Node{kind: 2, children: []*c02Node{c02Leaf(L)}, wrap: vChoice(2) == 1}
	case 2:
		k := 2 + vChoice(vTier(2, 3))
		j := &c02Node{kind: 3}
		for i := 0; i < k; i++ {
			if k == 4 && i >= 2 {
				// four operands: the last two from the plain spans only
				j.children = append(j.children, c02Plain(L))
			} else {
				j.children = append(j.children, c02Operand(L))
			}
		}
		if vChoice(2) == 1 {
			return &c02Node{kind: 2, children: []*c02Node{j}}
		}
		return j
	}
	// join containing complement(join(..)) in first, middle or last position
	cj := &c02Node{kind: 2, children: []*c02Node{{kind: 3, children: []*c02Node{c02Plain(L), c02Operand(L)}}}}
	other := c02Plain(L)
	switch vChoice(3) {
	case 0:
		return &c02Node{kind: 3, children: []*c02Node{cj, other}}
	case 1:
		return &c02Node{kind: 3, children: []*c02Node{other, cj}}
	}
	return &c02Node{kind: 3, children: []*c02Node{other, cj, c02Plain(L)}}
}

// c02Plain draws one of four plain operands.
func c02Plain(L int) *c02Node {
	return []*c02Node{{kind: 0, a: 1, b: 2}, {kind: 1, a: 3}, {kind: 0, a: 3, b: L, p5: true}, {kind: 0, a: 2, b: L, p3: true}}[vChoice(4)]
}

func Harness_C02_Locations() {
	L := vTier(4, 6)
	t := c02Tree(L)
	parent := vBytes(L, c02Comp)
	tab := c02CompTable()
	want := t.eval(parent, tab)
	text := t.text()
	vFindingClause("C02-F1", "written-location-is-valid-insdc", t.hasP3())

	// (a) text -> parseLocation -> GetSequence
	var seq poly.Sequence
	seq.Sequence = parent
	var got string
	panicked := vPanics(func() {
		f := poly.Feature{Type: "misc", GbkLocationString: text, SequenceLocation: parseLocation(text)}
		seq.AddFeature(&f)
		got = seq.Features[0].GetSequence()
	})
	vAssert(!panicked, "parsed-location-does-not-panic")
	if !panicked {
		vAssert(vEqStr(got, want), "parsed-location-denotes-insdc-bases")
	}

	// (b) structure -> AddFeature -> GetSequence
	var seq2 poly.Sequence
	seq2.Sequence = parent
	var got2 string
	loc := t.toLoc()
	panicked2 := vPanics(func() {
		f := poly.Feature{Type: "misc", SequenceLocation: loc}
		seq2.AddFeature(&f)
		got2 = seq2.Features[0].GetSequence()
	})
	vAssert(!panicked2, "assembled-location-does-not-panic")
	if !panicked2 {
		vAssert(vEqStr(got2, want), "assembled-location-denotes-insdc-bases")
	}

	// (c) structure -> text is valid INSDC, denotes the same bases and partial ends
	var out string
	panicked3 := vPanics(func() { out = BuildLocationString(loc) })
	vAssert(!panicked3, "location-writer-does-not-panic")
	if !panicked3 {
		p := &c02Parser{s: out}
		ev, ok := p.loc(parent, tab)
		ok = ok && p.pos == len(out)
		vAssert(ok, "written-location-is-valid-insdc")
		if ok {
			vAssert(vEqStr(ev, want), "written-location-denotes-same-bases")
			vAssert(p.p5 == t.hasP5() && p.p3 == t.hasP3(), "written-location-keeps-partial-ends")
		}
		// and the library reads its own text back to the same bases
		var seq3 poly.Sequence
		seq3.Sequence = parent
		var got3 string
		panicked4 := vPanics(func() {
			f := poly.Feature{Type: "misc", SequenceLocation: parseLocation(out)}
			seq3.AddFeature(&f)
			got3 = seq3.Features[0].GetSequence()
		})
		if ok {
			vAssert(!panicked4, "written-location-parses-back")
			if !panicked4 {
				vAssert(vEqStr(got3, want), "written-location-parses-back-to-same-bases")
			}
		}
	}
	// (d) writing leaves the structure it was given untouched: a second write gives the same text and
	// the feature assembled from the same structure still denotes the same bases
	if !panicked3 && !panicked2 {
		var out2, got4 string
		panicked5 := vPanics(func() {
			out2 = BuildLocationString(loc)
			got4 = seq2.Features[0].GetSequence()
		})
		vAssert(!panicked5, "location-writer-does-not-panic")
		if !panicked5 {
			vAssert(out2 == out, "writing-a-location-twice-gives-the-same-text")
			vAssert(vEqStr(got4, want), "writing-leaves-the-location-structure-untouched")
		}
	}
	vCover("C02 complement of a join", t.kind == 2 && t.children[0].kind == 3)
	vCover("C02 single base", t.kind == 1)
}

// the TestFeature_GetSequence shape: sub-locations without the Join flag
func Harness_C02_SubLocationsWithoutJoinFlag() {
	L := vTier(4, 6)
	parent := vBytes(L, c02Comp)
	tab := c02CompTable()
	k := 1 + vChoice(3)
	var loc poly.Location
	want := ""
	for i := 0; i < k; i++ {
		a := 1 + vChoice(L)
		b := a + vChoice(L-a+1)
		comp := vChoice(2) == 1
		sub := poly.Location{Start: a - 1, End: b, Complement: comp}
		piece := parent[a-1 : b]
		if comp {
			piece = c02RC(piece, tab)
		}
		want += piece
		loc.SubLocations = append(loc.SubLocations, sub)
	}
	if vChoice(2) == 1 {
		// the flag-less node one level down: an operand of a join
		loc = poly.Location{Join: true, SubLocations: []poly.Location{{Start: 0, End: 1}, loc}}
		want = parent[0:1] + want
	}
	var seq poly.Sequence
	seq.Sequence = parent
	f := poly.Feature{Type: "misc", SequenceLocation: loc}
	seq.AddFeature(&f)
	vAssert(vEqStr(seq.Features[0].GetSequence(), want), "assembled-location-denotes-insdc-bases")
	out := BuildLocationString(loc)
	p := &c02Parser{s: out}
	ev, ok := p.loc(parent, tab)
	ok = ok && p.pos == len(out)
	vAssert(ok, "written-location-is-valid-insdc")
	if ok {
		vAssert(vEqStr(ev, want), "written-location-denotes-same-bases")
	}
}

// locations read through the feature table of a whole record, written on one to four lines
func Harness_C02_RecordLevel() {
	const L = 12
	parent := vBytes(L, "acgt")
	tab := c02CompTable()
	ops := []*c02Node{{kind: 0, a: 1, b: 2}, {kind: 2, children: []*c02Node{{kind: 0, a: 3, b: 5}}}, {kind: 1, a: 6}, {kind: 0, a: 7, b: 9, p5: true}, {kind: 2, children: []*c02Node{{kind: 1, a: 10}}}, {kind: 0, a: 11, b: 12}}
	k := 2 + vChoice(5)
	t := &c02Node{kind: 3, children: ops[:k]}
	if vChoice(2) == 1 {
		t = &c02Node{kind: 2, children: []*c02Node{t}}
	}
	text := t.text()
	// break the text after commas into 1..4 lines
	nl := 1 + vChoice(4)
	var lines []string
	rest := text
	for i := 1; i < nl; i++ {
		c := strings.Index(rest, ",")
		if c < 0 {
			break
		}
		lines = append(lines, rest[:c+1])
		rest = rest[c+1:]
	}
	lines = append(lines, rest)
	rec := gRec{name: "recrd", mol: "DNA", topo: "linear", div: "SYN", date: "12-APR-2021", def: "d.", acc: "A", ver: "A.1", kw: ".", src: "s", org: "o",
		feats: []gFeat{{key: "CDS", locLines: lines, quals: []gQual{{"product", "p"}}}, {key: "gene", locLines: []string{"2..3"}}},
		seq:   parent}
	var s poly.Sequence
	panicked := vPanics(func() { s = Parse([]byte(rec.write(true))) })
	vAssert(!panicked, "parsed-location-does-not-panic")
	if panicked {
		return
	}
	vAssert(len(s.Features) == 2, "features-in-file-order")
	if len(s.Features) == 2 {
		vAssert(s.Features[0].GbkLocationString == text, "location-text-rejoined")
		var got string
		p2 := vPanics(func() { got = s.Features[0].GetSequence() })
		vAssert(!p2, "parsed-location-does-not-panic")
		if !p2 {
			vAssert(vEqStr(got, t.eval(parent, tab)), "parsed-location-denotes-insdc-bases")
		}
		vAssert(vEqStr(s.Features[1].GetSequence(), parent[1:3]), "parsed-location-denotes-insdc-bases")
	}
}

func Selftest_C02_Vectors() {
	parent := "acgtrkmacgtrkmacgtrkmacgtrkmacgtrkm"
	for _, text := range []string{"1..3", "5..22", "complement(4..21)", "join(1..2,10..12)", "complement(join(1..2,10..12))", "<1..3", "join(complement(1..3),complement(10..14))", "join(complement(1..3),5..6)", "30..35"} {
		var seq poly.Sequence
		seq.Sequence = parent
		f := poly.Feature{SequenceLocation: parseLocation(text)}
		seq.AddFeature(&f)
		vOut(text + " -> " + seq.Features[0].GetSequence() + " -> " + BuildLocationString(f.SequenceLocation))
	}
}
