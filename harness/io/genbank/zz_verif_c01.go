//go:build verif_sym || verif_native

package genbank

// C01: GenBank parsing returns exactly what a well-formed record states.
//
// verif:bound C01 records laid out by the harness's independent writer (standard flat-file columns): locus names of 2, 3 or 5 symbolic characters (lower-case letters other than g m o r t u v, last character also a digit), sequence lengths 4, 12, 61 (one, two digits; crossing an ORIGIN line) with every letter symbolic (a-z), molecule types DNA/mRNA/tRNA/rRNA, linear/circular, DEFINITION on one or two lines and ORGANISM with a taxonomy line (one symbolic word each), 0..1 (quick) / 0..2 (thorough) references with PUBMED and REMARK, optional COMMENT block
// verif:bound C01 feature tables: none; one feature with one qualifier; a feature without qualifiers followed by another; location text on two and on three lines; a qualifier value wrapped onto a continuation line (also one holding a run of two blanks); a value filling its line so that only the closing quote wraps; two features with two qualifiers; a 15-character feature key with a wrapped /translation followed by a wrapped /note. Qualifier values 2 symbolic bytes (3 in the thorough tier for the single-qualifier and the wrapped-value tables) over printable ASCII without the double quote (so '/', '=' and inner spaces are included; leading/trailing spaces excluded)
// verif:bound C01 multi-record clause: ParseMulti on one or two records with and without final newline, ParseFlat behind a 10-line header; each result compared with parsing that record alone
// verif:bound C01 long-record clause: a three-record file whose middle record has 60000 (quick) / 52000..140000 (thorough) ORIGIN letters (concrete body, symbolic ends)
// verif:bound C01 outside the claim: 40 features, 5 records, values long enough to wrap more than once, Read* wrappers and gzip

import "github.com/TimothyStiles/poly"

func c01Check(r gRec, s poly.Sequence, tag string) {
	vAssert(vEqStr(s.Sequence, r.seq), tag+"origin-letters-in-order")
	l := s.Meta.Locus
	vAssert(vEqStr(l.Name, r.name), tag+"locus-name")
	vAssert(vEqStr(l.SequenceLength, gItoa(len(r.seq))), tag+"locus-length")
	vAssert(vEqStr(l.MoleculeType, r.mol), tag+"locus-molecule-type")
	vAssert(l.Circular == (r.topo == "circular") && l.Linear == (r.topo == "linear"), tag+"locus-topology")
	vAssert(vEqStr(l.GenbankDivision, r.div), tag+"locus-division")
	vAssert(vEqStr(l.ModificationDate, r.date), tag+"locus-date")
	def := r.def
	if r.defCont != "" {
		def += " " + r.defCont
	}
	vAssert(vEqStr(s.Meta.Definition, def), tag+"definition-rejoined")
	vAssert(vEqStr(s.Meta.Accession, r.acc), tag+"accession")
	vAssert(vEqStr(s.Meta.Version, r.ver), tag+"version")
	vAssert(vEqStr(s.Meta.Keywords, r.kw), tag+"keywords")
	vAssert(vEqStr(s.Meta.Source, r.src), tag+"source")
	org := r.org
	if r.orgCont != "" {
		org += " " + r.orgCont
	}
	vAssert(vEqStr(s.Meta.Organism, org), tag+"organism-rejoined")
	vAssert(len(s.Meta.References) == len(r.refs), tag+"reference-count")
	for i := 0; i < len(r.refs) && i < len(s.Meta.References); i++ {
		a, b := r.refs[i], s.Meta.References[i]
		vAssert(vAnd(vEqStr(b.Index, a.idx), vEqStr(b.Range, a.rng), vEqStr(b.Authors, a.authors), vEqStr(b.Title, a.title), vEqStr(b.Journal, a.journal), vEqStr(b.PubMed, a.pubmed), vEqStr(b.Remark, a.remark)), tag+"reference-fields")
	}
	if r.comment != "" {
		c, ok := s.Meta.Other["COMMENT"]
		vAssert(ok, tag+"comment-block-kept")
		vAssert(vEqStr(c, r.comment), tag+"comment-text")
	}
	vAssert(len(s.Features) == len(r.feats), tag+"feature-count")
	for i := 0; i < len(r.feats) && i < len(s.Features); i++ {
		a, b := r.feats[i], s.Features[i]
		vAssert(vEqStr(b.Type, a.key), tag+"feature-key-in-file-order")
		vAssert(vEqStr(b.GbkLocationString, a.locText()), tag+"feature-location-text")
		vAssert(len(b.Attributes) == len(a.quals), tag+"qualifier-set-as-written")
		for qi, q := range a.quals {
			v, ok := b.Attributes[q.k]
			vAssert(ok, tag+"qualifier-set-as-written")
			want := q.v
			if q.k == "translation" && qi < len(a.wrapAt) && a.wrapAt[qi] > 0 && a.wrapAt[qi] < len(q.v) {
				// amino-acid text is wrapped anywhere and re-joined without a blank: the writer
				// replaced one character of the value by the line break, the reader drops it
				want = q.v[:a.wrapAt[qi]] + q.v[a.wrapAt[qi]+1:]
			}
			vAssert(vEqStr(v, want), tag+"qualifier-values-verbatim")
		}
	}
}

func Harness_C01_SingleRecord() {
	r := c01Record("", false)
	final := vChoice(2) == 1
	text := r.write(final)
	var s poly.Sequence
	panicked := vPanics(func() { s = Parse([]byte(text)) })
	vAssert(!panicked, "parse-does-not-panic")
	if panicked {
		return
	}
	c01Check(r, s, "")
	vCover("C01 a record whose ORIGIN spans two lines", len(r.seq) > 60)
	vCover("C01 a feature without qualifiers", len(r.feats) == 2 && len(r.feats[0].quals) == 0)
}

func c01SameResult(a, b poly.Sequence) bool {
	r := vAnd(vEqStr(a.Sequence, b.Sequence), vEqStr(a.Meta.Locus.Name, b.Meta.Locus.Name), vEqStr(a.Meta.Definition, b.Meta.Definition), vEqStr(a.Meta.Organism, b.Meta.Organism),
		len(a.Features) == len(b.Features), len(a.Meta.References) == len(b.Meta.References), vEqStr(a.Meta.Locus.SequenceLength, b.Meta.Locus.SequenceLength))
	for i := 0; i < len(a.Features) && i < len(b.Features); i++ {
		r = vAnd(r, vEqStr(a.Features[i].Type, b.Features[i].Type), vEqStr(a.Features[i].GbkLocationString, b.Features[i].GbkLocationString), len(a.Features[i].Attributes) == len(b.Features[i].Attributes))
		for k, v := range a.Features[i].Attributes {
			w, ok := b.Features[i].Attributes[k]
			r = vAnd(r, ok, vEqStr(v, w))
		}
	}
	return r
}

func Harness_C01_MultiRecord() {
	k := 1 + vChoice(2) // a file of one or two records
	recs := []gRec{c01Record("A", true)}
	if k == 2 {
		recs = append(recs, c01Record("B", true))
	}
	final := vChoice(2) == 1
	flat := vChoice(2) == 1
	text := ""
	for i := range recs {
		text += recs[i].write(i < k-1 || final)
	}
	var got, again []poly.Sequence
	alone := make([]poly.Sequence, k)
	var buf []byte
	whole := text
	panicked := vPanics(func() {
		if flat {
			hdr := ""
			for i := 0; i < 10; i++ {
				hdr += "GBSYN" + gItoa(i) + ".SEQ  header line\n"
			}
			whole = hdr + text
			buf = []byte(whole)
			got = ParseFlat(buf)
			again = ParseFlat(buf) // the same buffer read a second time
		} else {
			buf = []byte(whole)
			got = ParseMulti(buf)
			again = got
		}
		for i := range recs {
			alone[i] = Parse([]byte(recs[i].write(true)))
		}
	})
	vAssert(!panicked, "multi-parse-does-not-panic")
	if panicked {
		return
	}
	vAssert(vEqStr(string(buf), whole), "parser-leaves-its-input-untouched")
	vAssert(len(again) == k, "reading-the-same-buffer-again-gives-k-results")
	vAssert(len(got) == k, "k-records-give-k-results")
	if len(got) == k {
		for i := range recs {
			vAssert(c01SameResult(got[i], alone[i]), "each-result-equals-parsing-the-record-alone")
		}
	}
	vCover("C01 two records without final newline", !final && k == 2)
	vCover("C01 a single record without final newline", !final && k == 1)
}

// a multi-record file with one long record (well beyond any fixed buffer size)
func Harness_C01_LongRecord() {
	n := []int{60000}[0]
	if vTier(0, 1) == 1 {
		n = []int{52000, 60000, 70000, 140000}[vChoice(4)]
	}
	body := make([]byte, n)
	for i := range body {
		body[i] = "acgtgca"[i%7]
	}
	small1 := gRec{name: "first", mol: "DNA", topo: "linear", div: "SYN", date: "12-APR-2021", def: "one.", acc: "A1", ver: "A1.1", kw: ".", src: "s", org: "o", seq: vBytes(4, c01Letters)}
	long := gRec{name: "long" + vBytes(1, c01NameLast), mol: "DNA", topo: "circular", div: "SYN", date: "12-APR-2021", def: "long one.", acc: "A2", ver: "A2.1", kw: ".", src: "s", org: "o",
		feats: []gFeat{{key: "gene", locLines: []string{"1..3"}, quals: []gQual{{"gene", c01Value(2)}}}},
		seq:   vBytes(2, c01Letters) + string(body[2:n-2]) + vBytes(2, c01Letters)}
	small2 := gRec{name: "third", mol: "mRNA", topo: "linear", div: "SYN", date: "12-APR-2021", def: "three.", acc: "A3", ver: "A3.1", kw: ".", src: "s", org: "o", seq: vBytes(5, c01Letters)}
	final := vChoice(2) == 1
	text := small1.write(true) + long.write(true) + small2.write(final)
	var got []poly.Sequence
	panicked := vPanics(func() { got = ParseMulti([]byte(text)) })
	vAssert(!panicked, "multi-parse-does-not-panic")
	if panicked {
		return
	}
	vAssert(len(got) == 3, "k-records-give-k-results")
	if len(got) == 3 {
		c01Check(small1, got[0], "first-")
		c01Check(long, got[1], "long-")
		c01Check(small2, got[2], "third-")
	}
}

func Selftest_C01_Vectors() {
	r := gRec{name: "pverif", mol: "DNA", topo: "circular", div: "SYN", date: "12-APR-2021", def: "Synthetic construct.", defCont: "continued here", acc: "AB0001", ver: "AB0001.1", kw: ".",
		src: "synthetic DNA construct", org: "synthetic DNA construct", orgCont: "other sequences; artificial sequences.",
		refs:    []gRef{{"1", "(bases 1 to 70)", "Doe,J.", "Direct Submission", "Unpublished", "12345", "a remark"}},
		comment: "A comment.",
		feats:   []gFeat{{key: "gene", locLines: []string{"1..30"}, quals: []gQual{{"gene", "abc"}, {"note", "two words"}}}, {key: "CDS", locLines: []string{"join(1..10,", "20..30)"}, quals: []gQual{{"product", "protein x"}}}},
		seq:     "acgtacgtacgtacgtacgtacgtacgtacgtacgtacgtacgtacgtacgtacgtacgtacgtacgtac"}
	text := r.write(true)
	vOut(text)
	s := Parse([]byte(text))
	vOut(s.Sequence + "|" + s.Meta.Locus.Name + "|" + s.Meta.Locus.SequenceLength + "|" + s.Meta.Locus.MoleculeType + "|" + s.Meta.Locus.GenbankDivision + "|" + s.Meta.Locus.ModificationDate)
	vOut(s.Meta.Definition + "|" + s.Meta.Accession + "|" + s.Meta.Version + "|" + s.Meta.Keywords + "|" + s.Meta.Source + "|" + s.Meta.Organism + "|" + s.Meta.Other["COMMENT"])
	for _, rf := range s.Meta.References {
		vOut(rf.Index + "|" + rf.Range + "|" + rf.Authors + "|" + rf.Title + "|" + rf.Journal + "|" + rf.PubMed + "|" + rf.Remark)
	}
	for _, f := range s.Features {
		vOut(f.Type + "|" + f.GbkLocationString + "|" + f.Attributes["gene"] + "|" + f.Attributes["note"] + "|" + f.Attributes["product"] + "|" + f.GetSequence())
	}
	for _, m := range ParseMulti([]byte(text + text)) {
		vOut(m.Meta.Locus.Name)
	}
}
