//go:build verif_sym || verif_native

package genbank

// C01: GenBank parsing returns exactly what a well-formed record states.
//
// verif:bound C01 records laid out by the harness's independent writer (standard flat-file columns): locus names of 2, 3 or 5 symbolic characters (lower-case letters other than g m o r t u v, last character also a digit), sequence lengths 4, 12, 61 (one, two digits; crossing an ORIGIN line) with every letter symbolic (a-z), molecule types DNA/mRNA/tRNA/rRNA, linear/circular, DEFINITION on one or two lines and ORGANISM with a taxonomy line (one symbolic word each), 0..1 (quick) / 0..2 (thorough) references with PUBMED and REMARK, optional COMMENT block
// verif:bound C01 feature tables: none; one feature with one qualifier; a feature without qualifiers followed by another; location text on two and on three lines; a qualifier value wrapped onto a continuation line; two features with two qualifiers. Qualifier values 2 (quick) / 3 (thorough) symbolic bytes over printable ASCII without the double quote (so '/', '=' and inner spaces are included; leading/trailing spaces excluded)
// verif:bound C01 multi-record clause: ParseMulti on two records with and without final newline, ParseFlat behind a 10-line header; each result compared with parsing that record alone
// verif:bound C01 outside the claim: sequences of 10^5 letters, 40 features, 5 records, values long enough to wrap more than once, Read* wrappers and gzip

import "github.com/TimothyStiles/poly"

func c01Printable() string {
	var b []byte
	for c := byte(32); c < 127; c++ {
		if c != '"' {
			b = append(b, c)
		}
	}
	return string(b)
}

// locus-name letters: lower case without the first letters of the molecule-type names (each of
// those would fork the search for the molecule type at every position)
const c01NameAlpha = "abcdefhijklnpqswxyz"
const c01NameLast = "abcdefhijklnpqswxyz0123456789"
const c01Letters = "abcdefghijklmnopqrstuvwxyz"
const c01Word = "abcdefghijklmnopqrstuvwxyzABCDEFGHIJKLMNOPQRSTUVWXYZ"

func c01Value(n int) string {
	v := vBytes(n, c01Printable())
	vAssume(vAnd(v[0] != ' ', v[n-1] != ' '))
	return v
}

// c01Record draws an abstract record; tag makes concrete parts distinct between records.
func c01Record(tag string, small bool) gRec {
	var r gRec
	if small {
		// reduced generator for the multi-record harness (the second record has a fixed shape)
		prof := 1
		if tag == "A" {
			prof = vChoice(2)
		}
		r.name = vBytes([]int{4, 1}[prof], c01NameAlpha) + vBytes(1, c01NameLast)
		r.mol, r.topo, r.div, r.date = []string{"DNA", "mRNA"}[prof], []string{"linear", "circular"}[prof], "SYN", "12-APR-2021"
		r.seq = vBytes([]int{4, 12}[prof], c01Letters)
		r.def = "Synthetic " + vBytes(2, c01Word) + " construct" + tag + "."
		r.acc, r.ver, r.kw, r.src, r.org = "AB0001"+tag, "AB0001.1", ".", "synthetic DNA", "synthetic DNA construct"
		fk := 1
		if tag == "A" {
			fk = vChoice(3)
		}
		switch fk {
		case 1:
			r.feats = []gFeat{{key: "gene", locLines: []string{"1..3"}, quals: []gQual{{"gene", c01Value(2)}}}}
		case 2:
			r.feats = []gFeat{{key: "misc_feature", locLines: []string{"2..4"}}, {key: "CDS", locLines: []string{"join(1..2,", "3..4)"}, quals: []gQual{{"product", "p" + tag}}}}
		}
		return r
	}
	full := vTier(0, 1) == 1 // thorough: full cross product; quick: the axes are tied to the profile
	prof := vChoice(vTier(4, 6))
	pick := func(k int) bool {
		if full {
			return vChoice(2) == 1
		}
		return (prof>>uint(k))&1 == 1
	}
	nameLen := []int{5, 2, 5, 5, 3, 5}[prof]
	seqLen := []int{4, 12, 61, 12, 4, 61}[prof]
	r.mol = []string{"DNA", "mRNA", "tRNA", "rRNA", "DNA", "mRNA"}[prof]
	r.topo = []string{"linear", "circular", "linear", "circular", "circular", "linear"}[prof]
	r.name = vBytes(nameLen-1, c01NameAlpha) + vBytes(1, c01NameLast)
	r.div, r.date = "SYN", "12-APR-2021"
	r.seq = vBytes(seqLen, c01Letters)
	r.def = "Synthetic " + vBytes(2, c01Word) + " construct" + tag + "."
	if pick(0) {
		r.defCont = "second line " + vBytes(2, c01Word)
	}
	r.acc, r.ver, r.kw = "AB0001"+tag, "AB0001.1", "."
	r.src = "synthetic DNA " + vBytes(2, c01Word)
	r.org = "synthetic DNA construct"
	if pick(1) {
		r.orgCont = "other sequences; artificial " + vBytes(2, c01Word) + "."
	}
	nr := prof % 2
	if full {
		nr = vChoice(3)
	}
	for i := 0; i < nr; i++ {
		rf := gRef{idx: gItoa(i + 1), rng: "(bases 1 to " + gItoa(seqLen) + ")", authors: "Doe,J. and " + vBytes(2, c01Word) + ",K.", title: "Direct " + vBytes(2, c01Word), journal: "Unpublished" + tag}
		if i == 0 {
			rf.pubmed = "12345"
			rf.remark = "first " + vBytes(2, c01Word)
		}
		r.refs = append(r.refs, rf)
	}
	if !pick(0) {
		r.comment = "A comment " + vBytes(2, c01Word) + "."
	}
	vn := vTier(2, 3)
	switch vChoice(7) {
	case 0:
	case 1:
		r.feats = []gFeat{{key: "gene", locLines: []string{"1..3"}, quals: []gQual{{"gene", c01Value(vn)}}}}
	case 2:
		r.feats = []gFeat{{key: "misc_feature", locLines: []string{"2..4"}}, {key: "CDS", locLines: []string{"complement(1..3)"}, quals: []gQual{{"product", c01Value(vn)}}}}
	case 3:
		r.feats = []gFeat{{key: "CDS", locLines: []string{"join(1..2,", "3..4)"}, quals: []gQual{{"note", c01Value(vn)}}}}
	case 4:
		r.feats = []gFeat{{key: "CDS", locLines: []string{"join(1..1,", "2..2,", "3..4)"}, quals: []gQual{{"note", c01Value(vn)}, {"gene", "x"}}}}
	case 5:
		v := c01Value(vn) + " " + c01Value(vn)
		r.feats = []gFeat{{key: "gene", locLines: []string{"1..4"}, quals: []gQual{{"note", v}}, wrapAt: []int{vn}}}
		vFindingClause("C01-F7", "qualifier-values-verbatim", v[vn+1] == '/')
		vFindingClause("C01-F7", "qualifier-set-as-written", v[vn+1] == '/')
	case 6:
		r.feats = []gFeat{{key: "gene", locLines: []string{"1..3"}, quals: []gQual{{"gene", c01Value(vn)}, {"note", "plain text"}}},
			{key: "CDS", locLines: []string{"<1..>4"}, quals: []gQual{{"product", c01Value(vn)}, {"codon_start", "1"}}}}
	}
	return r
}

func c01Check(r gRec, s poly.Sequence, tag string) {
	vAssert(vEqStr(s.Sequence, r.seq), tag+"origin-letters-in-order")
	l := s.Meta.Locus
	vAssert(vEqStr(l.Name, r.name), tag+"locus-name")
	vAssert(vEqStr(l.SequenceLength, gItoa(len(r.seq))), tag+"locus-length")
	vAssert(vEqStr(l.MoleculeType, r.mol), tag+"locus-molecule-type")
	vAssert(l.Circular == (r.topo == "circular") && l.Linear == (r.topo == "linear"), tag+"locus-topology")
	vAssert(vEqStr(l.GenbankDivision, r.div), tag+"locus-division")
	vAssert(vEqStr(l.ModificationDate, r.date), tag+"locus-date")
	def := r.def
	if r.defCont != "" {
		def += " " + r.defCont
	}
	vAssert(vEqStr(s.Meta.Definition, def), tag+"definition-rejoined")
	vAssert(vEqStr(s.Meta.Accession, r.acc), tag+"accession")
	vAssert(vEqStr(s.Meta.Version, r.ver), tag+"version")
	vAssert(vEqStr(s.Meta.Keywords, r.kw), tag+"keywords")
	vAssert(vEqStr(s.Meta.Source, r.src), tag+"source")
	org := r.org
	if r.orgCont != "" {
		org += " " + r.orgCont
	}
	vAssert(vEqStr(s.Meta.Organism, org), tag+"organism-rejoined")
	vAssert(len(s.Meta.References) == len(r.refs), tag+"reference-count")
	for i := 0; i < len(r.refs) && i < len(s.Meta.References); i++ {
		a, b := r.refs[i], s.Meta.References[i]
		vAssert(vAnd(vEqStr(b.Index, a.idx), vEqStr(b.Range, a.rng), vEqStr(b.Authors, a.authors), vEqStr(b.Title, a.title), vEqStr(b.Journal, a.journal), vEqStr(b.PubMed, a.pubmed), vEqStr(b.Remark, a.remark)), tag+"reference-fields")
	}
	if r.comment != "" {
		c, ok := s.Meta.Other["COMMENT"]
		vAssert(ok, tag+"comment-block-kept")
		vAssert(vEqStr(c, r.comment), tag+"comment-text")
	}
	vAssert(len(s.Features) == len(r.feats), tag+"feature-count")
	for i := 0; i < len(r.feats) && i < len(s.Features); i++ {
		a, b := r.feats[i], s.Features[i]
		vAssert(vEqStr(b.Type, a.key), tag+"feature-key-in-file-order")
		vAssert(vEqStr(b.GbkLocationString, a.locText()), tag+"feature-location-text")
		vAssert(len(b.Attributes) == len(a.quals), tag+"qualifier-set-as-written")
		for _, q := range a.quals {
			v, ok := b.Attributes[q.k]
			vAssert(ok, tag+"qualifier-set-as-written")
			vAssert(vEqStr(v, q.v), tag+"qualifier-values-verbatim")
		}
	}
}

func Harness_C01_SingleRecord() {
	r := c01Record("", false)
	final := vChoice(2) == 1
	text := r.write(final)
	var s poly.Sequence
	panicked := vPanics(func() { s = Parse([]byte(text)) })
	vAssert(!panicked, "parse-does-not-panic")
	if panicked {
		return
	}
	c01Check(r, s, "")
	vCover("C01 a record whose ORIGIN spans two lines", len(r.seq) > 60)
	vCover("C01 a feature without qualifiers", len(r.feats) == 2 && len(r.feats[0].quals) == 0)
}

func c01SameResult(a, b poly.Sequence) bool {
	r := vAnd(vEqStr(a.Sequence, b.Sequence), vEqStr(a.Meta.Locus.Name, b.Meta.Locus.Name), vEqStr(a.Meta.Definition, b.Meta.Definition), vEqStr(a.Meta.Organism, b.Meta.Organism),
		len(a.Features) == len(b.Features), len(a.Meta.References) == len(b.Meta.References), vEqStr(a.Meta.Locus.SequenceLength, b.Meta.Locus.SequenceLength))
	for i := 0; i < len(a.Features) && i < len(b.Features); i++ {
		r = vAnd(r, vEqStr(a.Features[i].Type, b.Features[i].Type), vEqStr(a.Features[i].GbkLocationString, b.Features[i].GbkLocationString), len(a.Features[i].Attributes) == len(b.Features[i].Attributes))
		for k, v := range a.Features[i].Attributes {
			w, ok := b.Features[i].Attributes[k]
			r = vAnd(r, ok, vEqStr(v, w))
		}
	}
	return r
}

func Harness_C01_MultiRecord() {
	r1 := c01Record("A", true)
	r2 := c01Record("B", true)
	final := vChoice(2) == 1
	flat := vChoice(2) == 1
	text := r1.write(true) + r2.write(final)
	var got []poly.Sequence
	var alone1, alone2 poly.Sequence
	panicked := vPanics(func() {
		if flat {
			hdr := ""
			for i := 0; i < 10; i++ {
				hdr += "GBSYN" + gItoa(i) + ".SEQ  header line\n"
			}
			got = ParseFlat([]byte(hdr + text))
		} else {
			got = ParseMulti([]byte(text))
		}
		alone1 = Parse([]byte(r1.write(true)))
		alone2 = Parse([]byte(r2.write(true)))
	})
	vAssert(!panicked, "multi-parse-does-not-panic")
	if panicked {
		return
	}
	vAssert(len(got) == 2, "k-records-give-k-results")
	if len(got) == 2 {
		vAssert(c01SameResult(got[0], alone1), "each-result-equals-parsing-the-record-alone")
		vAssert(c01SameResult(got[1], alone2), "each-result-equals-parsing-the-record-alone")
	}
	vCover("C01 two records without final newline", !final)
}

func Selftest_C01_Vectors() {
	r := gRec{name: "pverif", mol: "DNA", topo: "circular", div: "SYN", date: "12-APR-2021", def: "Synthetic construct.", defCont: "continued here", acc: "AB0001", ver: "AB0001.1", kw: ".",
		src: "synthetic DNA construct", org: "synthetic DNA construct", orgCont: "other sequences; artificial sequences.",
		refs:    []gRef{{"1", "(bases 1 to 70)", "Doe,J.", "Direct Submission", "Unpublished", "12345", "a remark"}},
		comment: "A comment.",
		feats:   []gFeat{{key: "gene", locLines: []string{"1..30"}, quals: []gQual{{"gene", "abc"}, {"note", "two words"}}}, {key: "CDS", locLines: []string{"join(1..10,", "20..30)"}, quals: []gQual{{"product", "protein x"}}}},
		seq:     "acgtacgtacgtacgtacgtacgtacgtacgtacgtacgtacgtacgtacgtacgtacgtacgtacgtac"}
	text := r.write(true)
	vOut(text)
	s := Parse([]byte(text))
	vOut(s.Sequence + "|" + s.Meta.Locus.Name + "|" + s.Meta.Locus.SequenceLength + "|" + s.Meta.Locus.MoleculeType + "|" + s.Meta.Locus.GenbankDivision + "|" + s.Meta.Locus.ModificationDate)
	vOut(s.Meta.Definition + "|" + s.Meta.Accession + "|" + s.Meta.Version + "|" + s.Meta.Keywords + "|" + s.Meta.Source + "|" + s.Meta.Organism + "|" + s.Meta.Other["COMMENT"])
	for _, rf := range s.Meta.References {
		vOut(rf.Index + "|" + rf.Range + "|" + rf.Authors + "|" + rf.Title + "|" + rf.Journal + "|" + rf.PubMed + "|" + rf.Remark)
	}
	for _, f := range s.Features {
		vOut(f.Type + "|" + f.GbkLocationString + "|" + f.Attributes["gene"] + "|" + f.Attributes["note"] + "|" + f.Attributes["product"] + "|" + f.GetSequence())
	}
	for _, m := range ParseMulti([]byte(text + text)) {
		vOut(m.Meta.Locus.Name)
	}
}
