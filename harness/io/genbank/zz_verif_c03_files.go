//go:build verif_sym || verif_native

package genbank

import "io/ioutil"

// Translator validation: write the repository's own records back and read them again.
func Selftest_C03_RepositoryFiles() {
	for _, name := range []string{"puc19.gbk", "t4_intron.gb", "sample.gbk"} {
		b, err := ioutil.ReadFile("../../data/" + name)
		if err != nil {
			vOut("cannot read " + name)
			continue
		}
		s := Parse(b)
		text := Build(s)
		vOut(string(text))
		again := Parse(text)
		vOut(again.Meta.Locus.Name + " " + gItoa(len(again.Sequence)) + " " + gItoa(len(again.Features)))
	}
}
