//go:build verif_sym || verif_native

package genbank

// An independent GenBank flat-file writer (standard columns) over an abstract
// record, used by the C01 and C03 harnesses.  No fmt: everything here is
// interpreted by the engine, possibly on symbolic bytes.

type gQual struct{ k, v string }

type gFeat struct {
	key      string
	locLines []string // location text, possibly on several lines
	quals    []gQual
	// for each qualifier: the text is written on one line, or wrapped after `wrapAt` characters of the value (0 = not wrapped)
	wrapAt []int
}

type gRef struct{ idx, rng, authors, title, journal, pubmed, remark string }

type gRec struct {
	name, mol, topo, div, date  string
	def, acc, ver, kw, src, org string
	defCont                     string // second line of DEFINITION ("" = none)
	orgCont                     string // taxonomy line under ORGANISM ("" = none)
	refs                        []gRef
	comment                     string
	feats                       []gFeat
	seq                         string
}

func gSpaces(n int) string {
	s := ""
	for i := 0; i < n; i++ {
		s += " "
	}
	return s
}

func gItoa(x int) string {
	if x == 0 {
		return "0"
	}
	s := ""
	for x > 0 {
		s = string(rune('0'+x%10)) + s
		x /= 10
	}
	return s
}

func gPadRight(s string, n int) string {
	if len(s) >= n {
		return s
	}
	return s + gSpaces(n-len(s))
}

func gPadLeft(s string, n int) string {
	if len(s) >= n {
		return s
	}
	return gSpaces(n-len(s)) + s
}

func gKw(key string, indent int, first string, cont ...string) string {
	out := gPadRight(gSpaces(indent)+key, 12) + first + "\n"
	for _, c := range cont {
		out += gSpaces(12) + c + "\n"
	}
	return out
}

func (r gRec) locusLine() string {
	return "LOCUS       " + gPadRight(r.name, 16) + " " + gPadLeft(gItoa(len(r.seq)), 11) + " bp    " + gPadRight(r.mol, 6) + "  " + gPadRight(r.topo, 8) + " " + r.div + " " + r.date + "\n"
}

func (r gRec) write(final bool) string {
	b := r.locusLine()
	if r.defCont != "" {
		b += gKw("DEFINITION", 0, r.def, r.defCont)
	} else {
		b += gKw("DEFINITION", 0, r.def)
	}
	b += gKw("ACCESSION", 0, r.acc)
	b += gKw("VERSION", 0, r.ver)
	b += gKw("KEYWORDS", 0, r.kw)
	b += gKw("SOURCE", 0, r.src)
	if r.orgCont != "" {
		b += gKw("ORGANISM", 2, r.org, r.orgCont)
	} else {
		b += gKw("ORGANISM", 2, r.org)
	}
	for _, rf := range r.refs {
		b += gKw("REFERENCE", 0, rf.idx+"  "+rf.rng)
		b += gKw("AUTHORS", 2, rf.authors)
		b += gKw("TITLE", 2, rf.title)
		b += gKw("JOURNAL", 2, rf.journal)
		if rf.pubmed != "" {
			b += gKw("PUBMED", 3, rf.pubmed)
		}
		if rf.remark != "" {
			b += gKw("REMARK", 2, rf.remark)
		}
	}
	if r.comment != "" {
		b += gKw("COMMENT", 0, r.comment)
	}
	b += "FEATURES             Location/Qualifiers\n"
	for _, f := range r.feats {
		for i, l := range f.locLines {
			if i == 0 {
				b += gSpaces(5) + gPadRight(f.key, 16) + l + "\n"
			} else {
				b += gSpaces(21) + l + "\n"
			}
		}
		for qi, q := range f.quals {
			w := 0
			if qi < len(f.wrapAt) {
				w = f.wrapAt[qi]
			}
			if w > 0 && w == len(q.v) {
				// the value fills the line exactly: only the closing quote moves to the next line
				b += gSpaces(21) + "/" + q.k + "=\"" + q.v + "\n"
				b += gSpaces(21) + "\"\n"
			} else if w > 0 && w < len(q.v) {
				// wrapped at a space of the value: the space is replaced by the line break
				b += gSpaces(21) + "/" + q.k + "=\"" + q.v[:w] + "\n"
				b += gSpaces(21) + q.v[w+1:] + "\"\n"
			} else {
				b += gSpaces(21) + "/" + q.k + "=\"" + q.v + "\"\n"
			}
		}
	}
	b += "ORIGIN\n"
	for i := 0; i < len(r.seq); i += 60 {
		b += gPadLeft(gItoa(i+1), 9)
		for j := i; j < i+60 && j < len(r.seq); j += 10 {
			e := j + 10
			if e > len(r.seq) {
				e = len(r.seq)
			}
			b += " " + r.seq[j:e]
		}
		b += "\n"
	}
	b += "//"
	if final {
		b += "\n"
	}
	return b
}

func (f gFeat) locText() string {
	s := ""
	for _, l := range f.locLines {
		s += l
	}
	return s
}

// ---- record generator shared by the C01 and C03 harnesses

func c01Printable() string {
	var b []byte
	for c := byte(32); c < 127; c++ {
		if c != '"' {
			b = append(b, c)
		}
	}
	return string(b)
}

// locus-name letters: lower case without the first letters of the molecule-type names (each of
// those would fork the search for the molecule type at every position)
const c01NameAlpha = "abcdefhijklnpqswxyz"
const c01NameLast = "abcdefhijklnpqswxyz0123456789"
const c01Letters = "abcdefghijklmnopqrstuvwxyz"
const c01Word = "abcdefghijklmnopqrstuvwxyzABCDEFGHIJKLMNOPQRSTUVWXYZ"

func c01Value(n int) string {
	v := vBytes(n, c01Printable())
	vAssume(vAnd(v[0] != ' ', v[n-1] != ' '))
	return v
}

// c01Record draws an abstract record; tag makes concrete parts distinct between records.
func c01Record(tag string, small bool) gRec {
	var r gRec
	if small {
		// reduced generator for the multi-record harness (the second record has a fixed shape)
		prof := 1
		if tag == "A" {
			prof = vChoice(2)
		}
		r.name = vBytes([]int{4, 1}[prof], c01NameAlpha) + vBytes(1, c01NameLast)
		r.mol, r.topo, r.div, r.date = []string{"DNA", "mRNA"}[prof], []string{"linear", "circular"}[prof], "SYN", "12-APR-2021"
		r.seq = vBytes([]int{4, 12}[prof], c01Letters)
		r.def = "Synthetic " + vBytes(2, c01Word) + " construct" + tag + "."
		r.acc, r.ver, r.kw, r.src, r.org = "AB0001"+tag, "AB0001.1", ".", "synthetic DNA", "synthetic DNA construct"
		fk := 1
		if tag == "A" {
			fk = vChoice(3)
		}
		switch fk {
		case 1:
			r.feats = []gFeat{{key: "gene", locLines: []string{"1..3"}, quals: []gQual{{"gene", c01Value(2)}}}}
		case 2:
			r.feats = []gFeat{{key: "misc_feature", locLines: []string{"2..4"}}, {key: "CDS", locLines: []string{"join(1..2,", "3..4)"}, quals: []gQual{{"product", "p" + tag}}}}
		}
		return r
	}
	full := vTier(0, 1) == 1 // thorough: full cross product; quick: the axes are tied to the profile
	prof := vChoice(vTier(4, 6))
	pick := func(k int) bool {
		if full {
			return vChoice(2) == 1
		}
		return (prof>>uint(k))&1 == 1
	}
	nameLen := []int{5, 2, 5, 5, 3, 5}[prof]
	seqLen := []int{4, 12, 61, 12, 4, 61}[prof]
	r.mol = []string{"DNA", "mRNA", "tRNA", "rRNA", "DNA", "mRNA"}[prof]
	r.topo = []string{"linear", "circular", "linear", "circular", "circular", "linear"}[prof]
	r.name = vBytes(nameLen-1, c01NameAlpha) + vBytes(1, c01NameLast)
	r.div, r.date = "SYN", "12-APR-2021"
	r.seq = vBytes(seqLen, c01Letters)
	r.def = "Synthetic " + vBytes(2, c01Word) + " construct" + tag + "."
	if pick(0) {
		r.defCont = "second line " + vBytes(2, c01Word)
	}
	r.acc, r.ver, r.kw = "AB0001"+tag, "AB0001.1", "."
	r.src = "synthetic DNA " + vBytes(2, c01Word)
	r.org = "synthetic DNA construct"
	if pick(1) {
		r.orgCont = "other sequences; artificial " + vBytes(2, c01Word) + "."
	}
	nr := prof % 2
	if full {
		nr = prof % 3
	}
	for i := 0; i < nr; i++ {
		rf := gRef{idx: gItoa(i + 1), rng: "(bases 1 to " + gItoa(seqLen) + ")", authors: "Doe,J. and " + vBytes(2, c01Word) + ",K.", title: "Direct " + vBytes(2, c01Word), journal: "Unpublished" + tag}
		if i == 0 {
			rf.pubmed = "12345"
			rf.remark = "first " + vBytes(2, c01Word)
		}
		r.refs = append(r.refs, rf)
	}
	if !pick(0) {
		r.comment = "A comment " + vBytes(2, c01Word) + "."
	}
	vn := 2
	fcase := vChoice(10)
	if fcase == 1 || fcase == 5 {
		vn = vTier(2, 3) // 3-byte values for the plain and the wrapped qualifier only
	}
	switch fcase {
	case 0:
	case 1:
		r.feats = []gFeat{{key: "gene", locLines: []string{"1..3"}, quals: []gQual{{"gene", c01Value(vn)}}}}
	case 2:
		// a source feature that is NOT the first one of the table stays where the file has it
		r.feats = []gFeat{{key: "misc_feature", locLines: []string{"2..4"}}, {key: "source", locLines: []string{"complement(1..3)"}, quals: []gQual{{"product", c01Value(vn)}}}}
	case 3:
		r.feats = []gFeat{{key: "CDS", locLines: []string{"join(1..2,", "3..4)"}, quals: []gQual{{"note", c01Value(vn)}}}}
	case 4:
		r.feats = []gFeat{{key: "CDS", locLines: []string{"join(1..1,", "2..2,", "3..4)"}, quals: []gQual{{"note", c01Value(vn)}, {"gene", "x"}}}}
	case 5:
		v := c01Value(vn) + " " + c01Value(vn)
		r.feats = []gFeat{{key: "gene", locLines: []string{"1..4"}, quals: []gQual{{"note", v}}, wrapAt: []int{vn}}}
		vFindingClause("C01-F7", "qualifier-values-verbatim", v[vn+1] == '/')
		vFindingClause("C01-F7", "qualifier-set-as-written", v[vn+1] == '/')
	case 9:
		// a wrapped value that also holds a run of two blanks (kept verbatim) before the wrap point
		v := c01Value(2) + "  " + c01Value(2) + " " + c01Value(2)
		r.feats = []gFeat{{key: "gene", locLines: []string{"1..4"}, quals: []gQual{{"note", v}}, wrapAt: []int{6}}}
		vFindingClause("C01-F7", "qualifier-values-verbatim", v[7] == '/')
		vFindingClause("C01-F7", "qualifier-set-as-written", v[7] == '/')
	case 8:
		// a wrapped /translation (re-joined without blank) followed by a wrapped /note (re-joined with one)
		v := c01Value(vn) + " " + c01Value(vn)
		tr := "MKV" + vBytes(2, "ACDEFGHIKLMNPQRSTVWY") + " LLA"
		r.feats = []gFeat{{key: "misc_difference", locLines: []string{"1..3"}, quals: []gQual{{"translation", tr}, {"note", v}}, wrapAt: []int{5, vn}}}
		vFindingClause("C01-F7", "qualifier-values-verbatim", v[vn+1] == '/')
		vFindingClause("C01-F7", "qualifier-set-as-written", v[vn+1] == '/')
	case 7:
		v := c01Value(vn)
		r.feats = []gFeat{{key: "gene", locLines: []string{"1..4"}, quals: []gQual{{"note", v}, {"gene", "after"}}, wrapAt: []int{vn}},
			{key: "CDS", locLines: []string{"2..3"}, quals: []gQual{{"product", "later"}}}}
	case 6:
		r.feats = []gFeat{{key: "gene", locLines: []string{"1..3"}, quals: []gQual{{"gene", c01Value(vn)}, {"note", "plain text"}}},
			{key: "CDS", locLines: []string{"<1..>4"}, quals: []gQual{{"product", c01Value(vn)}, {"codon_start", "1"}}}}
	}
	return r
}

