//go:build verif_sym || verif_native

package genbank

// An independent GenBank flat-file writer (standard columns) over an abstract
// record, used by the C01 and C03 harnesses.  No fmt: everything here is
// interpreted by the engine, possibly on symbolic bytes.

type gQual struct{ k, v string }

type gFeat struct {
	key      string
	locLines []string // location text, possibly on several lines
	quals    []gQual
	// for each qualifier: the text is written on one line, or wrapped after `wrapAt` characters of the value (0 = not wrapped)
	wrapAt []int
}

type gRef struct{ idx, rng, authors, title, journal, pubmed, remark string }

type gRec struct {
	name, mol, topo, div, date  string
	def, acc, ver, kw, src, org string
	defCont                     string // second line of DEFINITION ("" = none)
	orgCont                     string // taxonomy line under ORGANISM ("" = none)
	refs                        []gRef
	comment                     string
	feats                       []gFeat
	seq                         string
}

func gSpaces(n int) string {
	s := ""
	for i := 0; i < n; i++ {
		s += " "
	}
	return s
}

func gItoa(x int) string {
	if x == 0 {
		return "0"
	}
	s := ""
	for x > 0 {
		s = string(rune('0'+x%10)) + s
		x /= 10
	}
	return s
}

func gPadRight(s string, n int) string {
	if len(s) >= n {
		return s
	}
	return s + gSpaces(n-len(s))
}

func gPadLeft(s string, n int) string {
	if len(s) >= n {
		return s
	}
	return gSpaces(n-len(s)) + s
}

func gKw(key string, indent int, first string, cont ...string) string {
	out := gPadRight(gSpaces(indent)+key, 12) + first + "\n"
	for _, c := range cont {
		out += gSpaces(12) + c + "\n"
	}
	return out
}

func (r gRec) locusLine() string {
	return "LOCUS       " + gPadRight(r.name, 16) + " " + gPadLeft(gItoa(len(r.seq)), 11) + " bp    " + gPadRight(r.mol, 6) + "  " + gPadRight(r.topo, 8) + " " + r.div + " " + r.date + "\n"
}

func (r gRec) write(final bool) string {
	b := r.locusLine()
	if r.defCont != "" {
		b += gKw("DEFINITION", 0, r.def, r.defCont)
	} else {
		b += gKw("DEFINITION", 0, r.def)
	}
	b += gKw("ACCESSION", 0, r.acc)
	b += gKw("VERSION", 0, r.ver)
	b += gKw("KEYWORDS", 0, r.kw)
	b += gKw("SOURCE", 0, r.src)
	if r.orgCont != "" {
		b += gKw("ORGANISM", 2, r.org, r.orgCont)
	} else {
		b += gKw("ORGANISM", 2, r.org)
	}
	for _, rf := range r.refs {
		b += gKw("REFERENCE", 0, rf.idx+"  "+rf.rng)
		b += gKw("AUTHORS", 2, rf.authors)
		b += gKw("TITLE", 2, rf.title)
		b += gKw("JOURNAL", 2, rf.journal)
		if rf.pubmed != "" {
			b += gKw("PUBMED", 3, rf.pubmed)
		}
		if rf.remark != "" {
			b += gKw("REMARK", 2, rf.remark)
		}
	}
	if r.comment != "" {
		b += gKw("COMMENT", 0, r.comment)
	}
	b += "FEATURES             Location/Qualifiers\n"
	for _, f := range r.feats {
		for i, l := range f.locLines {
			if i == 0 {
				b += gSpaces(5) + gPadRight(f.key, 16) + l + "\n"
			} else {
				b += gSpaces(21) + l + "\n"
			}
		}
		for qi, q := range f.quals {
			w := 0
			if qi < len(f.wrapAt) {
				w = f.wrapAt[qi]
			}
			if w > 0 && w < len(q.v) {
				// wrapped at a space of the value: the space is replaced by the line break
				b += gSpaces(21) + "/" + q.k + "=\"" + q.v[:w] + "\n"
				b += gSpaces(21) + q.v[w+1:] + "\"\n"
			} else {
				b += gSpaces(21) + "/" + q.k + "=\"" + q.v + "\"\n"
			}
		}
	}
	b += "ORIGIN\n"
	for i := 0; i < len(r.seq); i += 60 {
		b += gPadLeft(gItoa(i+1), 9)
		for j := i; j < i+60 && j < len(r.seq); j += 10 {
			e := j + 10
			if e > len(r.seq) {
				e = len(r.seq)
			}
			b += " " + r.seq[j:e]
		}
		b += "\n"
	}
	b += "//"
	if final {
		b += "\n"
	}
	return b
}

func (f gFeat) locText() string {
	s := ""
	for _, l := range f.locLines {
		s += l
	}
	return s
}
