//go:build verif_sym || verif_native

package genbank

// Translator validation on the repository's own GenBank files: the engine
// (interpreting the SSA, once with native stdlib calls and once with every stdlib
// model forced) and the native build must print identical summaries.

import (
	"io/ioutil"

	"github.com/TimothyStiles/poly"
)

func c01Summary(s poly.Sequence) {
	l := s.Meta.Locus
	vOut(l.Name + "|" + l.SequenceLength + "|" + l.MoleculeType + "|" + l.GenbankDivision + "|" + l.ModificationDate + "|" + gItoa(len(s.Sequence)))
	vOut(s.Meta.Definition + "|" + s.Meta.Accession + "|" + s.Meta.Version + "|" + s.Meta.Keywords + "|" + s.Meta.Source + "|" + s.Meta.Organism)
	for _, r := range s.Meta.References {
		vOut("REF " + r.Index + "|" + r.Range + "|" + r.Authors + "|" + r.Title + "|" + r.Journal + "|" + r.PubMed + "|" + r.Remark)
	}
	vOut(s.Sequence)
	for _, f := range s.Features {
		line := f.Type + " " + f.GbkLocationString + " -> " + BuildLocationString(f.SequenceLocation)
		vOut(line)
		for _, k := range []string{"gene", "product", "note", "label", "translation", "codon_start", "db_xref", "organism", "mol_type"} {
			if v, ok := f.Attributes[k]; ok {
				vOut("  /" + k + "=" + v)
			}
		}
		seq := ""
		if !vPanics(func() { seq = f.GetSequence() }) {
			vOut("  seq " + seq)
		} else {
			vOut("  seq panics")
		}
	}
}

func Selftest_C01_RepositoryFiles() {
	for _, name := range []string{"puc19.gbk", "t4_intron.gb", "sample.gbk", "phix174.gb", "puc19_snapgene.gb", "pichia_chr1_head.gb", "long_comment.seq"} {
		b, err := ioutil.ReadFile("../../data/" + name)
		if err != nil {
			vOut("cannot read " + name)
			continue
		}
		vOut("== " + name)
		c01Summary(Parse(b))
	}
	b, _ := ioutil.ReadFile("../../data/multiGbk_test.seq")
	for _, s := range ParseMulti(b) {
		vOut("multi " + s.Meta.Locus.Name + " " + gItoa(len(s.Sequence)) + " " + gItoa(len(s.Features)))
	}
	b, _ = ioutil.ReadFile("../../data/flatGbk_test.seq")
	for _, s := range ParseFlat(b) {
		vOut("flat " + s.Meta.Locus.Name + " " + gItoa(len(s.Sequence)) + " " + gItoa(len(s.Features)))
	}
}
