//go:build verif_sym || verif_native

package genbank

// C03: GenBank write-then-read is the identity and writing is deterministic.
//
// verif:bound C03 structured records: locus name 4 symbolic characters, sequence of 3, 12 or 61 symbolic letters, linear/circular/neither, metadata fields one symbolic word each (DEFINITION optionally ~90 characters long, forcing the writer to wrap), 0..2 references with and without REMARK, the second one sparse (a single optional field present), 0..2 extra keyword blocks, 0..2 features with 0..2 (quick) / 0..3 (thorough; 0..2 in the determinism clause) qualifiers (values 2 symbolic bytes over letters, digits and inner space, the first qualifier of the first feature also over \" / = , ( ); or empty), location cached as text or assembled as a structure, including one-base spans with partial markers, a join of a single operand and a complemented operand below the root; the last word before the DEFINITION wrap point is 2 symbolic printable characters
// verif:bound C03 determinism (keys): keyword blocks COMMENT / Comment and qualifiers gene / Gene (keys equal up to case) among the maps whose orders are explored
// verif:bound C03 determinism: every iteration order of the qualifier maps and of the extra-keyword map is explored for two independent writes (exact for maps of <= 3 entries); natively the writes are repeated 50 times
// verif:bound C03 parser-image clause: Parse(Build(Parse(t))) = Parse(t) for the C01 selftest record
// verif:bound C03 outside the claim: sequences of 10^5 letters, 40 features, 8 qualifiers, metadata of 2000 characters, Write/Read file wrappers; the 'independent reader' is the layout checks of this harness (column facts), not a second full parser

import (
	"strings"

	"github.com/TimothyStiles/poly"
)

const c03Val = "abcdefghijklmnopqrstuvwxyzABCDEFGHIJKLMNOPQRSTUVWXYZ0123456789 "

// the first qualifier of the first feature may also hold the characters of the qualifier syntax itself
const c03ValWide = c03Val + "\"/=,()"

func c03Value(wide bool) string {
	alpha := c03Val
	if wide {
		alpha = c03ValWide
	}
	v := vBytes(2, alpha)
	vAssume(vAnd(v[0] != ' ', v[1] != ' '))
	return v
}

func c03Word() string { return vBytes(2, c01Word) }

// printable ASCII without space and double quote
func c03Punct() string {
	var b []byte
	for c := byte(33); c < 127; c++ {
		if c != '"' {
			b = append(b, c)
		}
	}
	return string(b)
}

func c03Record(maxQ int) poly.Sequence {
	var x poly.Sequence
	full := false // the axes are tied to a profile: 8 profiles (quick) / 24 (thorough)
	prof := vChoice(vTier(8, 24))
	ax := func(k, n int) int {
		if full {
			return vChoice(n)
		}
		return (prof >> uint(k)) % n
	}
	n := []int{3, 12, 61}[ax(0, 3)]
	x.Sequence = vBytes(n, c01Letters)
	l := &x.Meta.Locus
	l.Name = vBytes(3, c01NameAlpha) + vBytes(1, c01NameLast)
	l.SequenceLength = gItoa(n)
	l.SequenceCoding = "bp"
	l.MoleculeType = []string{"DNA", "mRNA"}[ax(1, 2)]
	l.GenbankDivision = "SYN"
	l.ModificationDate = "12-APR-2021"
	switch ax(2, 3) {
	case 0:
		l.Circular = true
	case 1:
		l.Linear = true
	}
	m := &x.Meta
	m.Definition = "Synthetic " + c03Word() + " construct."
	if ax(1, 2) == 1 {
		// the symbolic word (any printable non-space characters) is the last word before the wrap
		w := vBytes(2, c03Punct())
		// C01's quantifier: no line other than a record terminator ends in "//" (the multi-record
		// reader splits at "//\n"), so the word at the wrap point is not "//"
		vAssume(vNot(vEqStr(w, "//")))
		m.Definition = "A rather long definition line that goes on and on so it wraps at " + w + " somewhere after that word."
	}
	m.Accession, m.Version, m.Keywords = "AB"+c03Word(), "AB0001.1", "."
	m.Source = "synthetic " + c03Word()
	m.Organism = "synthetic DNA " + c03Word()
	nr := ax(0, 3)
	for i := 0; i < nr; i++ {
		r := poly.Reference{Index: gItoa(i + 1), Range: "(bases 1 to " + gItoa(n) + ")", Authors: "Doe,J. and " + c03Word(), Title: "Direct " + c03Word(), Journal: "Unpublished", PubMed: "12345"}
		if i == 0 {
			r.Remark = "remark " + c03Word()
		}
		if i == 1 {
			// sparse reference: every optional field but one is empty
			keep := vChoice(4)
			r = poly.Reference{Index: gItoa(i + 1), Range: r.Range}
			switch keep {
			case 0:
				r.Authors = "Doe,J. and " + c03Word()
			case 1:
				r.Title = "Direct " + c03Word()
			case 2:
				r.Journal = "Unpublished " + c03Word()
			case 3:
				r.PubMed = "12345"
			}
		}
		m.References = append(m.References, r)
	}
	m.Other = map[string]string{}
	no := ax(1, 3)
	if no >= 1 {
		m.Other["COMMENT"] = "comment " + c03Word()
	}
	if no >= 2 {
		m.Other["DBLINK"] = "BioProject: " + c03Word()
	}
	nf := vChoice(3)
	for i := 0; i < nf; i++ {
		var f poly.Feature
		f.Type = []string{"gene", "CDS"}[i]
		loc := [][]string{{"1..3", "<2..2", "complement(3..>3)"}, {"complement(join(1..2,3..3))", "join(complement(<1..1),3..3)", "join(<1..1,3..3)"}}[i][ax(2, 3)]
		if loc == "1..3" && prof%4 == 0 {
			loc = "join(1..3)" // a join of a single operand keeps its Join flag and its operand
		}
		f.SequenceLocation = parseLocation(loc)
		if (full && vChoice(2) == 1) || (!full && (prof+i)%2 == 1) {
			f.GbkLocationString = loc // cached location text
		}
		f.Attributes = map[string]string{}
		nq := vChoice(maxQ + 1)
		if i == 1 {
			nq = 2 + prof%2*(maxQ-2)
		}
		keys := []string{"gene", "note", "product"}
		for q := 0; q < nq; q++ {
			f.Attributes[keys[q]] = c03Value(i == 0 && q == 0)
		}
		if nq >= 1 && prof%3 == 0 {
			f.Attributes[keys[0]] = "" // a qualifier with an empty value
		}
		x.AddFeature(&f)
	}
	return x
}

func c03EqLoc(a, b poly.Location) bool {
	if a.Start != b.Start || a.End != b.End || a.Complement != b.Complement || a.Join != b.Join || a.FivePrimePartial != b.FivePrimePartial || a.ThreePrimePartial != b.ThreePrimePartial || len(a.SubLocations) != len(b.SubLocations) {
		return false
	}
	for i := range a.SubLocations {
		if !c03EqLoc(a.SubLocations[i], b.SubLocations[i]) {
			return false
		}
	}
	return true
}

func c03Same(x, y poly.Sequence, tag string) {
	vAssert(vEqStr(x.Sequence, y.Sequence), tag+"sequence-preserved")
	a, b := x.Meta.Locus, y.Meta.Locus
	vAssert(vAnd(vEqStr(a.Name, b.Name), vEqStr(a.SequenceLength, b.SequenceLength), vEqStr(a.MoleculeType, b.MoleculeType), vEqStr(a.GenbankDivision, b.GenbankDivision),
		vEqStr(a.ModificationDate, b.ModificationDate), vEqStr(a.SequenceCoding, b.SequenceCoding), a.Circular == b.Circular, a.Linear == b.Linear), tag+"locus-preserved")
	m, n := x.Meta, y.Meta
	vAssert(vAnd(vEqStr(m.Definition, n.Definition), vEqStr(m.Accession, n.Accession), vEqStr(m.Version, n.Version), vEqStr(m.Keywords, n.Keywords), vEqStr(m.Source, n.Source), vEqStr(m.Organism, n.Organism)), tag+"metadata-preserved")
	vAssert(len(m.References) == len(n.References), tag+"reference-count-preserved")
	for i := 0; i < len(m.References) && i < len(n.References); i++ {
		r, s := m.References[i], n.References[i]
		vAssert(vAnd(vEqStr(r.Index, s.Index), vEqStr(r.Range, s.Range), vEqStr(r.Authors, s.Authors), vEqStr(r.Title, s.Title), vEqStr(r.Journal, s.Journal), vEqStr(r.PubMed, s.PubMed)), tag+"reference-fields-preserved")
		vAssert(vEqStr(r.Remark, s.Remark), tag+"reference-remark-preserved")
	}
	vAssert(len(m.Other) == len(n.Other), tag+"extra-keyword-blocks-preserved")
	for k, v := range m.Other {
		w, ok := n.Other[k]
		vAssert(ok, tag+"extra-keyword-blocks-preserved")
		vAssert(vEqStr(v, w), tag+"extra-keyword-text-preserved")
	}
	vAssert(len(x.Features) == len(y.Features), tag+"feature-count-preserved")
	for i := 0; i < len(x.Features) && i < len(y.Features); i++ {
		f, g := x.Features[i], y.Features[i]
		vAssert(vEqStr(f.Type, g.Type), tag+"feature-key-preserved")
		vAssert(c03EqLoc(f.SequenceLocation, g.SequenceLocation), tag+"feature-location-preserved")
		vAssert(len(f.Attributes) == len(g.Attributes), tag+"qualifier-map-preserved")
		for k, v := range f.Attributes {
			w, ok := g.Attributes[k]
			vAssert(ok, tag+"qualifier-map-preserved")
			vAssert(vEqStr(v, w), tag+"qualifier-value-preserved")
		}
	}
}

func Harness_C03_WriteRead() {
	x := c03Record(vTier(2, 3))
	var y poly.Sequence
	var text []byte
	panicked := vPanics(func() {
		text = Build(x)
		y = Parse(text)
	})
	vAssert(!panicked, "write-then-read-does-not-panic")
	if panicked {
		return
	}
	c03Same(x, y, "")
	// the multi-record reader accepts the writer's output too
	var ys []poly.Sequence
	p2 := vPanics(func() { ys = ParseMulti(text) })
	vAssert(!p2, "multi-reader-accepts-written-record")
	if !p2 {
		vAssert(len(ys) == 1, "multi-reader-finds-the-written-record")
	}
	// layout facts an independent reader relies on
	s := string(text)
	lines := strings.Split(s, "\n")
	vAssert(len(lines) > 3 && lines[len(lines)-1] == "//", "terminator-is-last")
	inOrigin := false
	next := 1
	okCols, okNum := true, true
	for _, ln := range lines {
		if len(ln) > 80 && !inOrigin {
			okCols = false
		}
		if inOrigin && ln != "//" {
			if len(ln) < 10 || strings.TrimSpace(ln[:9]) != gItoa(next) || ln[9] != ' ' {
				okNum = false
			}
			next += 60
		}
		if ln == "ORIGIN" {
			inOrigin = true
		}
	}
	vAssert(okCols, "lines-at-most-80-columns")
	vAssert(okNum, "origin-blocks-numbered-1-61-121")
	vCover("C03 two features with qualifiers", len(x.Features) == 2 && len(x.Features[1].Attributes) >= 2)
	vCover("C03 a reference with a remark", len(x.Meta.References) >= 1)
}

func Harness_C03_Deterministic() {
	x := c03Record(2) // every iteration order of every map, twice: at most 2 qualifiers per feature in both tiers
	if _, ok := x.Meta.Other["COMMENT"]; ok && len(x.Meta.Other) == 1 {
		x.Meta.Other["Comment"] = "spelt differently" // keywords that differ only in case are different keys
	}
	if len(x.Features) > 0 && len(x.Features[0].Attributes) == 1 {
		if _, ok := x.Features[0].Attributes["gene"]; ok {
			x.Features[0].Attributes["Gene"] = "x"
		}
	}
	vObserveMap(x.Meta.Other)
	for i := range x.Features {
		vObserveMap(x.Features[i].Attributes)
	}
	first := Build(x)
	same := vAnd()
	n := vRepeat(50)
	for i := 0; i < n; i++ {
		again := Build(x)
		same = vAnd(same, vEqStr(string(first), string(again)))
	}
	vAssert(same, "writing-twice-gives-identical-bytes")
}

func Harness_C03_ParserImage() {
	// Parse(Build(Parse(t))) = Parse(t) for a record laid out by the independent writer
	r := c01Record("", false)
	vAssume(len(r.feats) == 0 || len(r.feats[0].wrapAt) == 0)
	text := r.write(true)
	var a, b poly.Sequence
	panicked := vPanics(func() {
		a = Parse([]byte(text))
		b = Parse(Build(a))
	})
	vAssert(!panicked, "parser-image-round-trip-does-not-panic")
	if !panicked {
		c03Same(a, b, "parser-image-")
	}
}

func Selftest_C03_Vectors() {
	var x poly.Sequence
	x.Sequence = "acgtacgtacgtacgtacgtacgtacgtacgtacgtacgtacgtacgtacgtacgtacgtacgtacgtac"
	x.Meta.Locus = poly.Locus{Name: "pverif", SequenceLength: "70", MoleculeType: "DNA", GenbankDivision: "SYN", ModificationDate: "12-APR-2021", SequenceCoding: "bp", Circular: true}
	x.Meta.Definition = "A rather long definition line that goes on and on so that the writer has to wrap it somewhere near here."
	x.Meta.Accession, x.Meta.Version, x.Meta.Keywords, x.Meta.Source, x.Meta.Organism = "AB0001", "AB0001.1", ".", "synthetic DNA", "synthetic DNA construct"
	x.Meta.References = []poly.Reference{{Index: "1", Authors: "Doe,J.", Title: "Direct Submission", Journal: "Unpublished", PubMed: "12345", Range: "(bases 1 to 70)"}}
	x.Meta.Other = map[string]string{"COMMENT": "a comment"}
	f := poly.Feature{Type: "gene", SequenceLocation: parseLocation("join(1..10,20..30)"), Attributes: map[string]string{"gene": "abc"}}
	x.AddFeature(&f)
	text := string(Build(x))
	vOut(text)
	y := Parse([]byte(text))
	vOut(y.Meta.Definition + "|" + y.Meta.Locus.SequenceLength + "|" + y.Features[0].GbkLocationString + "|" + y.Features[0].Attributes["gene"] + "|" + y.Meta.Other["COMMENT"])
}
