//go:build verif_sym || verif_native

package fasta

import (
	"bytes"
	"io/ioutil"
)

// Translator validation on the repository's own FASTA file.
func Selftest_C13_RepositoryFile() {
	b, err := ioutil.ReadFile("data/base.fasta")
	if err != nil {
		vOut("cannot read")
		return
	}
	fs := Parse(bytes.NewReader(b))
	for _, f := range fs {
		vOut(f.Name + "|" + f.Sequence)
	}
	vOut(string(Build(fs)))
}
