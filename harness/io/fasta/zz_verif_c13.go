//go:build verif_sym || verif_native

package fasta

// C13: FASTA records survive write/read, re-wrapping and streaming unchanged.
//
// verif:bound C13 two-builds clause: two one-record lists (symbolic 3-character names, 5 and 0|5 symbolic letters) built one after the other, both texts held and then read back
// verif:bound C13 record lists of 1..3 records; names 3 symbolic bytes (printable ASCII); sequences of length 0, 1, 5, 65536 and 262144 (quick) plus 65535, 65537, 70000, 262143, 300000 (thorough), every letter symbolic over A-Z a-z * -
// verif:bound C13 re-wrapping: the harness's own writer with line widths 1, 3, 60, optional blank lines, ';' comment lines and CRLF line ends
// verif:bound C13 long-line clause: a sequence written on ONE line of 65535 or 65536 (quick) / 65534..65537, 131071, 131072 (thorough) symbolic letters, LF or CRLF line ends
// verif:bound C13 streaming: channel capacities 0, 1, 1000; schedules explored at synchronisation-point granularity (default run-to-block schedule, its LIFO mirror, and all schedules deviating from it at <= 2 (quick) / 3 (thorough) choice points)
// verif:assume C13 bufio.Scanner is modelled (ScanLines; a line that does not fit the 64 KiB buffer ends scanning with ErrTooLong unless Scanner.Buffer raised the limit); bytes.Reader/bytes.Buffer modelled; Go's channel FIFO semantics trusted
// verif:bound C13 outside the claim: gzip (ReadGz*), files, the race detector, pre-emption between synchronisation points, more than 3 records, sequences longer than 300000

import "bytes"

const c13Letters = "ABCDEFGHIJKLMNOPQRSTUVWXYZabcdefghijklmnopqrstuvwxyz*-"

func c13Printable() string {
	var b []byte
	for c := byte(32); c < 127; c++ {
		b = append(b, c)
	}
	return string(b)
}

func c13Records(big bool) []Fasta {
	n := 1 + vChoice(3)
	var out []Fasta
	lens := []int{0, 1, 5}
	for i := 0; i < n; i++ {
		l := lens[vChoice(len(lens))]
		out = append(out, Fasta{vBytes(3, c13Printable()), vBytes(l, c13Letters)})
	}
	return out
}

func c13Same(a, b []Fasta, tag string) {
	vAssert(len(a) == len(b), tag+"-record-count")
	for i := 0; i < len(a) && i < len(b); i++ {
		vAssert(vEqStr(a[i].Name, b[i].Name), tag+"-names-in-order")
		vAssert(len(a[i].Sequence) == len(b[i].Sequence), tag+"-sequence-length")
		vAssert(vEqStr(a[i].Sequence, b[i].Sequence), tag+"-sequences-in-order")
	}
}

func Harness_C13_WriteRead() {
	recs := c13Records(false)
	var back []Fasta
	panicked := vPanics(func() { back = Parse(bytes.NewReader(Build(recs))) })
	vAssert(!panicked, "write-read-does-not-panic")
	if !panicked {
		c13Same(recs, back, "write-read")
	}
	vCover("C13 an empty sequence", len(recs[0].Sequence) == 0)
}

// two lists written one after the other: the first text, still held, reads back as the first list
func Harness_C13_TwoBuilds() {
	first := []Fasta{{vBytes(3, c13Printable()), vBytes(5, c13Letters)}}
	second := []Fasta{{vBytes(3, c13Printable()), vBytes(vChoice(2)*5, c13Letters)}}
	var back1, back2 []Fasta
	panicked := vPanics(func() {
		t1 := Build(first)
		t2 := Build(second)
		back1 = Parse(bytes.NewReader(t1))
		back2 = Parse(bytes.NewReader(t2))
	})
	vAssert(!panicked, "write-read-does-not-panic")
	if !panicked {
		c13Same(first, back1, "first-of-two-builds")
		c13Same(second, back2, "second-of-two-builds")
	}
}

// sequences beyond any fixed line buffer
func Harness_C13_LongSequence() {
	lens := []int{65536, 262144}
	if vTier(0, 1) == 1 {
		lens = []int{65535, 65536, 65537, 70000, 262143, 262144, 300000}
	}
	l := lens[vChoice(len(lens))]
	var recs []Fasta
	first := vChoice(2) == 1
	if first {
		recs = append(recs, Fasta{"a", vBytes(2, c13Letters)})
	}
	recs = append(recs, Fasta{vBytes(2, c13Printable()), vBytes(l, c13Letters)})
	recs = append(recs, Fasta{"z", vBytes(3, c13Letters)})
	var back []Fasta
	panicked := vPanics(func() { back = Parse(bytes.NewReader(Build(recs))) })
	vAssert(!panicked, "write-read-does-not-panic")
	if !panicked {
		c13Same(recs, back, "long-sequence")
	}
}

// the harness's own writer: arbitrary wrapping, blank lines, comments, CRLF
// one sequence line as long as the scanner's initial buffer, with CRLF line ends
func Harness_C13_LongLineCRLF() {
	lens := []int{65535, 65536}
	if vTier(0, 1) == 1 {
		lens = []int{65534, 65535, 65536, 65537, 131071, 131072}
	}
	l := lens[vChoice(len(lens))]
	recs := []Fasta{{vBytes(2, c13Printable()), vBytes(l, c13Letters)}, {"z", vBytes(3, c13Letters)}}
	vAssume(vNot(vEqStr(recs[0].Name[1:], "\r")))
	crlf := vChoice(2) == 1
	var back []Fasta
	panicked := vPanics(func() { back = Parse(bytes.NewReader(c13Write(recs, l, false, false, crlf))) })
	vAssert(!panicked, "rewrapped-read-does-not-panic")
	if !panicked {
		c13Same(recs, back, "long-line")
	}
}

func c13Write(recs []Fasta, width int, blank, comment, crlf bool) []byte {
	nl := "\n"
	if crlf {
		nl = "\r\n"
	}
	out := ""
	if comment {
		out += ";written by the harness" + nl
	}
	for _, r := range recs {
		out += ">" + r.Name + nl
		for i := 0; i < len(r.Sequence); i += width {
			j := i + width
			if j > len(r.Sequence) {
				j = len(r.Sequence)
			}
			out += r.Sequence[i:j] + nl
			if blank && i == 0 {
				out += nl
			}
		}
		if comment {
			out += ";" + nl
		}
		if blank {
			out += nl
		}
	}
	return []byte(out)
}

func Harness_C13_Rewrap() {
	recs := c13Records(false)
	width := []int{1, 3, 60}[vChoice(3)]
	blank, comment, crlf := vChoice(2) == 1, vChoice(2) == 1, vChoice(2) == 1
	for _, r := range recs {
		// names that would themselves be read as another kind of line are outside the writer's duty
		vAssume(vNot(vEqStr(r.Name[2:], "\r")))
	}
	var back []Fasta
	panicked := vPanics(func() { back = Parse(bytes.NewReader(c13Write(recs, width, blank, comment, crlf))) })
	vAssert(!panicked, "rewrapped-read-does-not-panic")
	if !panicked {
		c13Same(recs, back, "rewrapped")
	}
	vCover("C13 CRLF with comments", crlf && comment)
}

func Harness_C13_Streaming() {
	vSchedules(vTier(2, 3))
	recs := c13Records(false)
	capacity := []int{0, 1, 1000}[vChoice(3)]
	ch := make(chan Fasta, capacity)
	data := Build(recs)
	go ParseConcurrent(bytes.NewReader(data), ch)
	var got []Fasta
	for f := range ch {
		got = append(got, f)
	}
	c13Same(recs, got, "streamed")
	// the channel is closed exactly once: a further receive still reports closed, and a
	// second close by the producer would have crashed the program
	_, ok := <-ch
	vAssert(!ok, "channel-closed-after-last-record")
	vCover("C13 unbuffered channel with three records", capacity == 0 && len(recs) == 3)
}

func Selftest_C13_Vectors() {
	text := ">gi|5524211|gb|AAD44166.1| cytochrome b\nLCLYTHIGRNIYYGSYLYSETWNTGIMLLLITMATAFMGYVLPWGQMSFWGATVITNLFSAIPYIGTNLV\nEWIWGGFSVDKATLNRFFAFHFILPFTMVALAGVHLTFLHETGSNNPLGLTSDSDKIPFHPYYTIKDFLG\n\n;comment\n>second\r\nACGT\r\nAC\r\n"
	for _, f := range Parse(bytes.NewReader([]byte(text))) {
		vOut(f.Name + "|" + f.Sequence)
	}
	vOut(string(Build([]Fasta{{"a", "ACGT"}, {"b", ""}})))
	for _, f := range Parse(bytes.NewReader(c13Write([]Fasta{{"x y", "ACGTACG"}, {"", "A"}}, 3, true, true, true))) {
		vOut(f.Name + "|" + f.Sequence)
	}
}
