//go:build verif_sym || verif_native

package gff

import (
	"io/ioutil"
	"strconv"
)

// Translator validation on the repository's own GFF file.
func Selftest_C14_RepositoryFile() {
	b, err := ioutil.ReadFile("../../data/ecoli-mg1655-short.gff")
	if err != nil {
		vOut("cannot read")
		return
	}
	s := Parse(b)
	vOut(s.Meta.Name + " " + s.Meta.GffVersion + " " + strconv.Itoa(s.Meta.RegionStart) + " " + strconv.Itoa(s.Meta.RegionEnd) + " " + strconv.Itoa(len(s.Sequence)) + " " + strconv.Itoa(len(s.Features)))
	for _, f := range s.Features {
		vOut(f.Name + "|" + f.Source + "|" + f.Type + "|" + strconv.Itoa(f.SequenceLocation.Start) + "|" + strconv.Itoa(f.SequenceLocation.End) + "|" + f.Score + "|" + f.Strand + "|" + f.Phase + "|" + f.Attributes["ID"] + "|" + f.GetSequence())
	}
	text := Build(s)
	vOut(string(text))
	again := Parse(text)
	vOut(strconv.Itoa(len(again.Sequence)) + " " + strconv.Itoa(len(again.Features)))
}
