//go:build verif_sym || verif_native

package gff

// C14: GFF write-then-read preserves records and 1-based/0-based coordinates.
//
// verif:bound C14 two-builds clause: two one-feature records (5 and 3|5 symbolic letters, symbolic names and ID values) built one after the other, both texts held and then read back
// verif:bound C14 sequence length in {1,2,3,69,70,71,72,139,140,141} (quick) / every length 1..212 (thorough: every residue class modulo the 70-column width, three wraps), all letters symbolic (a-z); 0..2 (quick) / 0..3 (thorough) features with 1..2 attributes; feature coordinates at the extremes and one interior span
// verif:bound C14 many-features clause: 17 and 30 features (quick) / 15..34 (thorough) on an 80-letter sequence
// verif:bound C14 field text symbolic: seqid / region name 2 bytes over [a-zA-Z0-9.:^*$@!+_?|-] (the GFF3 ID alphabet), source/type/score/phase/attribute values 1..2 bytes (fixed lengths per field) over printable ASCII without tab, newline, ';', '=', '#', '>'; strand over + - . ?
// verif:assume C14 preconditions (the writer's documented defaults would otherwise rewrite them): non-empty region name, RegionStart = 1, RegionEnd = sequence length, GffVersion set, at least one attribute per feature, attribute keys concrete (ID, Name)
// verif:bound C14 outside the claim: sequences longer than 212, more than 3 features / 2 attributes, GFF text laid out by an independent writer (only the repository's own excerpt, as a translator-validation vector), Read/Write file wrappers

import "github.com/TimothyStiles/poly"

func c14IDAlphabet() string {
	s := ".:^*$@!+_?|-"
	for c := byte('a'); c <= 'z'; c++ {
		s += string([]byte{c, c - 32})
	}
	for c := byte('0'); c <= '9'; c++ {
		s += string([]byte{c})
	}
	return s
}

func c14Text() string {
	var b []byte
	for c := byte(32); c < 127; c++ {
		if c == ';' || c == '=' || c == '#' || c == '>' {
			continue
		}
		b = append(b, c)
	}
	return string(b)
}

func c14Lengths() []int {
	if vTier(0, 1) == 1 {
		var out []int
		for i := 1; i <= 212; i++ {
			out = append(out, i)
		}
		return out
	}
	return []int{1, 2, 3, 69, 70, 71, 72, 139, 140, 141}
}

func Harness_C14_RoundTrip() {
	ls := c14Lengths()
	L := ls[vChoice(len(ls))]
	var seq poly.Sequence
	seq.Sequence = vBytes(L, "abcdefghijklmnopqrstuvwxyz")
	seq.Meta.Name = vBytes(2, c14IDAlphabet())
	seq.Meta.GffVersion = "3"
	seq.Meta.RegionStart = 1
	seq.Meta.RegionEnd = L
	nf := vChoice(vTier(3, 4))
	type span struct{ s, e int }
	var spans []span
	for i := 0; i < nf; i++ {
		var f poly.Feature
		// a seqid may begin with a single '#': only "##" opens a directive
		f.Name = vBytes(1, c14IDAlphabet()+"#") + vBytes(1, c14IDAlphabet())
		f.Source = vBytes(2, c14Text())
		f.Type = vBytes(1, c14Text()) + "x"
		f.Score = vBytes(1, c14Text())
		f.Strand = vBytes(1, "+-.?")
		f.Phase = vBytes(1, ".012")
		f.Attributes = map[string]string{"ID": vBytes(2, c14Text())}
		if vChoice(2) == 1 {
			f.Attributes["Name"] = vBytes(1, c14Text())
		}
		var sp span
		switch vChoice(4) {
		case 0:
			sp = span{1, L}
		case 1:
			sp = span{1, 1}
		case 2:
			sp = span{L, L}
		case 3:
			sp = span{(L + 1) / 2, (L+1)/2 + (L-(L+1)/2)/2}
		}
		spans = append(spans, sp)
		f.SequenceLocation = poly.Location{Start: sp.s - 1, End: sp.e}
		seq.AddFeature(&f)
	}
	var back poly.Sequence
	var text []byte
	panicked := vPanics(func() {
		text = Build(seq)
		back = Parse(text)
	})
	vAssert(!panicked, "write-then-read-does-not-panic")
	if panicked {
		return
	}
	vAssert(vEqStr(back.Meta.Name, seq.Meta.Name), "region-name-preserved")
	vAssert(back.Meta.RegionStart == 1 && back.Meta.RegionEnd == L, "region-bounds-preserved")
	vAssert(vEqStr(back.Meta.GffVersion, "3"), "version-preserved")
	vAssert(vEqStr(back.Sequence, seq.Sequence), "sequence-preserved")
	vAssert(len(back.Features) == nf, "feature-count-preserved")
	if len(back.Features) != nf {
		return
	}
	for i := 0; i < nf; i++ {
		a, b := seq.Features[i], back.Features[i]
		vAssert(vEqStr(a.Name, b.Name), "seqid-preserved")
		vAssert(vEqStr(a.Source, b.Source), "source-preserved")
		vAssert(vEqStr(a.Type, b.Type), "type-preserved")
		vAssert(vEqStr(a.Score, b.Score), "score-preserved")
		vAssert(vEqStr(a.Strand, b.Strand), "strand-preserved")
		vAssert(vEqStr(a.Phase, b.Phase), "phase-preserved")
		vAssert(len(a.Attributes) == len(b.Attributes), "attribute-count-preserved")
		for k, v := range a.Attributes {
			w, ok := b.Attributes[k]
			vAssert(ok, "attribute-key-preserved")
			vAssert(vEqStr(v, w), "attribute-value-preserved")
		}
		vAssert(b.SequenceLocation.Start == spans[i].s-1 && b.SequenceLocation.End == spans[i].e, "coordinates-convert-1-based-inclusive-to-0-based-half-open")
		var fs string
		p2 := vPanics(func() { fs = b.GetSequence() })
		vAssert(!p2, "parsed-feature-sequence-does-not-panic")
		if !p2 {
			vAssert(vEqStr(fs, seq.Sequence[spans[i].s-1:spans[i].e]), "parsed-feature-sequence-is-bases-start-to-end")
		}
	}
	vCover("C14 a sequence that wraps", L > 70)
	vCover("C14 two features", nf == 2)
}

// two records written one after the other: the first text, still held, reads back as the first record
func Harness_C14_TwoBuilds() {
	mk := func(L int) poly.Sequence {
		var seq poly.Sequence
		seq.Sequence = vBytes(L, "abcdefghijklmnopqrstuvwxyz")
		seq.Meta.Name = vBytes(2, c14IDAlphabet())
		seq.Meta.GffVersion = "3"
		seq.Meta.RegionStart = 1
		seq.Meta.RegionEnd = L
		f := poly.Feature{Name: seq.Meta.Name, Source: "s", Type: "gene", Score: ".", Strand: "+", Phase: ".",
			Attributes: map[string]string{"ID": vBytes(2, c14Text())}, SequenceLocation: poly.Location{Start: 0, End: L}}
		seq.AddFeature(&f)
		return seq
	}
	a, b := mk(5), mk(3+vChoice(2)*2)
	var backA, backB poly.Sequence
	panicked := vPanics(func() {
		ta := Build(a)
		tb := Build(b)
		backA = Parse(ta)
		backB = Parse(tb)
	})
	vAssert(!panicked, "write-then-read-does-not-panic")
	if panicked {
		return
	}
	for i, pr := range [][2]poly.Sequence{{a, backA}, {b, backB}} {
		tag := []string{"first-of-two-builds-", "second-of-two-builds-"}[i]
		x, y := pr[0], pr[1]
		vAssert(vEqStr(y.Meta.Name, x.Meta.Name), tag+"region-name-preserved")
		vAssert(vEqStr(y.Sequence, x.Sequence), tag+"sequence-preserved")
		vAssert(len(y.Features) == 1, tag+"feature-count-preserved")
		if len(y.Features) == 1 {
			vAssert(vEqStr(y.Features[0].Attributes["ID"], x.Features[0].Attributes["ID"]), tag+"attribute-value-preserved")
		}
	}
}

// many features (count thresholds)
func Harness_C14_ManyFeatures() {
	nf := []int{17, 30}[vChoice(2)]
	if vTier(0, 1) == 1 {
		nf = 15 + vChoice(20)
	}
	L := 80
	var seq poly.Sequence
	seq.Sequence = vBytes(3, "acgt") + "acgtacgtacgtacgtacgtacgtacgtacgtacgtacgtacgtacgtacgtacgtacgtacgtacgtacgtacgta"[:L-6] + vBytes(3, "acgt")
	seq.Meta.Name = "chr1"
	seq.Meta.GffVersion = "3"
	seq.Meta.RegionStart = 1
	seq.Meta.RegionEnd = L
	sym := vBytes(2, c14Text())
	for i := 0; i < nf; i++ {
		var f poly.Feature
		f.Name, f.Source, f.Type, f.Score, f.Strand, f.Phase = "chr1", "src", "gene", ".", "+", "."
		f.Attributes = map[string]string{"ID": "g" + string(rune('a'+i%26)) + string(rune('a'+i/26))}
		if i == nf-1 || i == 16 {
			f.Attributes["Name"] = sym
		}
		f.SequenceLocation = poly.Location{Start: i % 40, End: i%40 + 5}
		seq.AddFeature(&f)
	}
	back := Parse(Build(seq))
	vAssert(vEqStr(back.Sequence, seq.Sequence), "sequence-preserved")
	vAssert(len(back.Features) == nf, "feature-count-preserved")
	for i := 0; i < nf && i < len(back.Features); i++ {
		a, b := seq.Features[i], back.Features[i]
		vAssert(b.SequenceLocation.Start == a.SequenceLocation.Start && b.SequenceLocation.End == a.SequenceLocation.End, "coordinates-convert-1-based-inclusive-to-0-based-half-open")
		vAssert(vEqStr(a.Attributes["ID"], b.Attributes["ID"]) && vEqStr(a.Attributes["Name"], b.Attributes["Name"]), "attribute-value-preserved")
	}
}
func Selftest_C14_Vectors() {
	text := "##gff-version 3\n##sequence-region NC_000913.3 1 140\nNC_000913.3\tRefSeq\tregion\t1\t140\t.\t+\t.\tID=NC_000913.3:1..140;Dbxref=taxon:511145;Name=ANONYMOUS\nNC_000913.3\tRefSeq\tgene\t10\t80\t.\t-\t.\tID=gene-b0001;gene=thrL\n###\n##FASTA\n>NC_000913.3\nagcttttcattctgactgcaacgggcaatatgtctctgtgtggattaaaaaaagagtgtctgatagcagc\nttctgaactggttacctgccgtgagtaaattaaaattttattgacttaggtcactaaatactttaaccaa\n"
	s := Parse([]byte(text))
	vOut(s.Meta.Name + " " + s.Meta.GffVersion + " " + s.Description)
	vOut(s.Sequence)
	for _, f := range s.Features {
		vOut(f.Name + "|" + f.Source + "|" + f.Type + "|" + f.Score + "|" + f.Strand + "|" + f.Phase + "|" + f.Attributes["ID"] + "|" + f.GetSequence())
	}
	vOut(string(Build(s)))
	var e poly.Sequence
	e.Sequence = "acgt"
	vOut(string(Build(e)))
}
