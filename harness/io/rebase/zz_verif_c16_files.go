//go:build verif_sym || verif_native

package rebase

import (
	"io/ioutil"
	"sort"
)

// Translator validation on the repository's own REBASE excerpt.
func Selftest_C16_RepositoryFile() {
	b, err := ioutil.ReadFile("data/rebase_test.txt")
	if err != nil {
		vOut("cannot read")
		return
	}
	m := Parse(b)
	var names []string
	for k := range m {
		names = append(names, k)
	}
	sort.Strings(names)
	for _, n := range names {
		e := m[n]
		s := e.Name + "|" + e.RecognitionSequence + "|" + e.MethylationSite + "|" + e.MicroOrganism + "|" + e.Source + "|" + e.References + "|"
		for _, i := range e.Isoschizomers {
			s += i + ","
		}
		s += "|"
		for _, c := range e.CommercialAvailability {
			s += c + ";"
		}
		vOut(s)
	}
}
