//go:build verif_sym || verif_native

package rebase

import "encoding/json"

func vUnmarshalEnzymes(b []byte, m *map[string]Enzyme) error { return json.Unmarshal(b, m) }
