//go:build verif_sym || verif_native

package rebase

// C16: REBASE parsing recovers every enzyme record and decodes suppliers.
//
// verif:bound C16 listings with 0..1 prose lines before the supplier table, 1..3 supplier lines indented with 16 spaces (as in the distributed file) or tabs, 0..2 (quick) / 0..3 (thorough) records <1>..<8>; every field 0..2 symbolic bytes (printable ASCII without '<'; two length patterns per record: all two bytes / empty and short fields), isoschizomer lists of 0 or 2 names, 0 or 2 supplier letters per enzyme; enzyme names and supplier letters pairwise distinct
// verif:bound C16 many-suppliers clause: one enzyme with 9 or 15 supplier letters in reverse table order
// verif:bound C16 export-text clause: two enzymes with quotes, backslashes, tabs, <, >, & in their fields and 3+2 symbolic printable bytes, exported through the engine's JSON text layer and parsed back
// verif:bound C16 long-line clause: one record whose isoschizomer line has 65530 / 70000 characters
// verif:bound C16 outside the claim: 300 records, 15 supplier letters, Export text beyond the text-layer harness (3+2 symbolic bytes), Read's file handling

func c16Printable() string {
	var b []byte
	for c := byte(32); c < 127; c++ {
		if c == '<' {
			continue
		}
		b = append(b, c)
	}
	return string(b)
}

func c16NoComma() string {
	var b []byte
	for c := byte(33); c < 127; c++ {
		if c == '<' || c == ',' {
			continue
		}
		b = append(b, c)
	}
	return string(b)
}

const c16Letters = "ABCDEFGHIJKLMNOPQRSTUVWXYZ"

func Harness_C16_Parse() {
	text := ""
	if vChoice(2) == 1 {
		text += "REBASE version 104  " + vBytes(2, c16Printable()) + "\n\n"
	}
	text += "REBASE codes for commercial sources of enzymes\n\n"
	ns := 1 + vChoice(3)
	indent := "                "
	if vChoice(2) == 1 {
		indent = "\t\t"
	}
	letters := make([]byte, ns)
	names := make([]string, ns)
	for i := 0; i < ns; i++ {
		letters[i] = vByte(c16Letters)
		for j := 0; j < i; j++ {
			vAssume(letters[i] != letters[j])
		}
		names[i] = vBytes(2, c16Printable()) + " (3/21)"
		text += indent + string([]byte{letters[i]}) + "        " + names[i] + "\n"
	}
	text += "\n"
	nr := vChoice(vTier(3, 4))
	type rec struct {
		name   string
		iso    []string
		fields [6]string // <3> <4> <5> <6> <8> and the raw <2>
		sup    []int
	}
	var recs []rec
	for r := 0; r < nr; r++ {
		var rc rec
		rc.name = "E" + vBytes(2, c16NoComma())
		for j := 0; j < r; j++ {
			vAssume(vNot(vEqStr(rc.name, recs[j].name)))
		}
		shape := vChoice(3) // 0: every field two bytes; 1: empty and short fields; 2: field text that mentions the tag of a later field
		ni := 2 * vChoice(2)
		isoText := ""
		for k := 0; k < ni; k++ {
			p := vBytes(2, c16NoComma())
			rc.iso = append(rc.iso, p)
			if k > 0 {
				isoText += ","
			}
			isoText += p
		}
		for k := 0; k < 5; k++ {
			n := 2
			if shape == 1 {
				n = []int{0, 1, 0, 2, 0}[k]
			}
			rc.fields[k] = vBytes(n, c16Printable())
			if shape == 2 && k == 0 {
				rc.fields[k] = vBytes(1, c16Printable()) + " <4>"
			}
			if shape == 2 && k == 2 {
				rc.fields[k] = "see field <6>" + vBytes(1, c16Printable())
			}
		}
		nsup := 2 * vChoice(2)
		supText := ""
		for k := 0; k < nsup && k < ns; k++ {
			idx := (r + k) % ns
			rc.sup = append(rc.sup, idx)
			supText += string([]byte{letters[idx]})
		}
		text += "<1>" + rc.name + "\n<2>" + isoText + "\n<3>" + rc.fields[0] + "\n<4>" + rc.fields[1] + "\n<5>" + rc.fields[2] + "\n<6>" + rc.fields[3] + "\n<7>" + supText + "\n<8>" + rc.fields[4] + "\n\n"
		recs = append(recs, rc)
	}
	var m map[string]Enzyme
	panicked := vPanics(func() { m = Parse([]byte(text)) })
	vAssert(!panicked, "parse-does-not-panic")
	if panicked {
		return
	}
	vAssert(len(m) == nr, "one-entry-per-record")
	for _, rc := range recs {
		e, ok := m[rc.name]
		vAssert(ok, "entry-keyed-by-enzyme-name")
		vAssert(vEqStr(e.Name, rc.name), "name-verbatim")
		vAssert(vEqStr(e.RecognitionSequence, rc.fields[0]), "recognition-sequence-verbatim")
		vAssert(vEqStr(e.MethylationSite, rc.fields[1]), "methylation-site-verbatim")
		vAssert(vEqStr(e.MicroOrganism, rc.fields[2]), "organism-verbatim")
		vAssert(vEqStr(e.Source, rc.fields[3]), "source-verbatim")
		vAssert(vEqStr(e.References, rc.fields[4]), "references-verbatim")
		if len(rc.iso) == 0 {
			vAssert(len(e.Isoschizomers) == 0 || (len(e.Isoschizomers) == 1 && e.Isoschizomers[0] == ""), "empty-isoschizomer-field-stays-empty")
		} else {
			vAssert(len(e.Isoschizomers) == len(rc.iso), "isoschizomers-split-at-commas")
			for k := 0; k < len(rc.iso) && k < len(e.Isoschizomers); k++ {
				vAssert(vEqStr(e.Isoschizomers[k], rc.iso[k]), "isoschizomer-verbatim")
			}
		}
		vAssert(len(e.CommercialAvailability) == len(rc.sup), "one-supplier-per-letter")
		for k := 0; k < len(rc.sup) && k < len(e.CommercialAvailability); k++ {
			vAssert(vEqStr(e.CommercialAvailability[k], names[rc.sup[k]]), "supplier-letter-decoded-by-the-files-own-table")
		}
	}
	vCover("C16 two records with suppliers", nr == 2 && len(recs[1].sup) > 0)
}

func Selftest_C16_Vectors() {
	text := "REBASE version 104\n\nREBASE codes for commercial sources of enzymes\n\n                B        Life Technologies (3/21)\n                N        New England Biolabs (3/21)\n\n<1>AaaI\n<2>XmaIII,BseX3I\n<3>C^GGCCG\n<4>\n<5>Acetobacter aceti ss aceti\n<6>M. Fukaya\n<7>NB\n<8>Tagami, H. (1988)\n\n<1>AarI\n<2>\n<3>CACCTGC(4/8)\n<4>\n<5>Arthrobacter aurescens SS2-322\n<6>A. Janulaitis\n<7>B\n<8>Grigaite\n\n"
	m := Parse([]byte(text))
	for _, n := range []string{"AaaI", "AarI"} {
		e := m[n]
		s := e.Name + "|" + e.RecognitionSequence + "|" + e.MethylationSite + "|" + e.MicroOrganism + "|" + e.Source + "|" + e.References + "|"
		for _, i := range e.Isoschizomers {
			s += i + ","
		}
		s += "|"
		for _, c := range e.CommercialAvailability {
			s += c + ";"
		}
		vOut(s)
	}
}

// a listing with one very long line (a huge isoschizomer list) loses nothing
func Harness_C16_LongLine() {
	n := []int{65530, 70000}[vChoice(2)]
	body := make([]byte, n)
	for i := range body {
		body[i] = "ABCDEFGHIJ,"[i%11]
	}
	iso := vBytes(2, c16NoComma()) + "," + string(body) + "," + vBytes(2, c16NoComma())
	text := "REBASE codes for commercial sources of enzymes\n\n                B        Life Technologies (3/21)\n\n" +
		"<1>Eaa\n<2>" + iso + "\n<3>CC\n<4>\n<5>org\n<6>src\n<7>B\n<8>ref\n\n<1>Ebb\n<2>\n<3>GG\n<4>\n<5>o\n<6>s\n<7>\n<8>r\n\n"
	var m map[string]Enzyme
	panicked := vPanics(func() { m = Parse([]byte(text)) })
	vAssert(!panicked, "parse-does-not-panic")
	if panicked {
		return
	}
	vAssert(len(m) == 2, "one-entry-per-record")
	e := m["Eaa"]
	vAssert(len(e.Isoschizomers) >= 2 && vEqStr(e.Isoschizomers[0], iso[:2]) && vEqStr(e.Isoschizomers[len(e.Isoschizomers)-1], iso[len(iso)-2:]), "isoschizomers-split-at-commas")
	vAssert(vEqStr(m["Ebb"].RecognitionSequence, "GG"), "recognition-sequence-verbatim")
}

// an enzyme sold by many suppliers (up to 15 letters in REBASE)
func Harness_C16_ManySuppliers() {
	ns := []int{9, 15}[vChoice(2)]
	text := "REBASE codes for commercial sources of enzymes\n\n"
	var names []string
	letters := "BCEIJKMNOQRSVXY"
	for i := 0; i < ns; i++ {
		nm := "Supplier " + string(rune('a'+i)) + vBytes(1, c16Printable()) + " (3/21)"
		names = append(names, nm)
		text += "                " + letters[i:i+1] + "        " + nm + "\n"
	}
	// the letters in reverse table order
	sup := ""
	for i := ns - 1; i >= 0; i-- {
		sup += letters[i : i+1]
	}
	text += "\n<1>Eaa\n<2>\n<3>CC\n<4>\n<5>o\n<6>s\n<7>" + sup + "\n<8>r\n\n"
	m := Parse([]byte(text))
	e, ok := m["Eaa"]
	vAssert(ok, "entry-keyed-by-enzyme-name")
	vAssert(len(e.CommercialAvailability) == ns, "one-supplier-per-letter")
	for k := 0; k < ns && k < len(e.CommercialAvailability); k++ {
		vAssert(vEqStr(e.CommercialAvailability[k], names[ns-1-k]), "supplier-letter-decoded-by-the-files-own-table")
	}
}
// Export: the JSON export parses back to the same map (json by field/tag contract).
func Harness_C16_Export() {
	n := vChoice(vTier(3, 4))
	m := map[string]Enzyme{}
	for i := 0; i < n; i++ {
		var e Enzyme
		e.Name = "E" + vBytes(1, c16NoComma()) + string(rune('0'+i))
		e.RecognitionSequence = vBytes(2, c16Printable())
		e.MethylationSite = vBytes(vChoice(2), c16Printable())
		e.MicroOrganism = vBytes(1, c16Printable())
		e.Source = vBytes(1, c16Printable())
		e.References = vBytes(1, c16Printable())
		switch vChoice(3) {
		case 1:
			e.Isoschizomers = []string{}
		case 2:
			e.Isoschizomers = []string{vBytes(2, c16NoComma()), vBytes(1, c16NoComma())}
		}
		if vChoice(2) == 1 {
			e.CommercialAvailability = []string{vBytes(2, c16Printable())}
		}
		m[e.Name] = e
	}
	text := Export(m)
	var back map[string]Enzyme
	err := vUnmarshalEnzymes(text, &back)
	vAssert(err == nil, "export-parses-back")
	vAssert(len(back) == len(m), "export-keeps-every-entry")
	for k, e := range m {
		b, ok := back[k]
		vAssert(ok, "export-keeps-keys")
		vAssert(vAnd(vEqStr(e.Name, b.Name), vEqStr(e.RecognitionSequence, b.RecognitionSequence), vEqStr(e.MethylationSite, b.MethylationSite),
			vEqStr(e.MicroOrganism, b.MicroOrganism), vEqStr(e.Source, b.Source), vEqStr(e.References, b.References)), "export-keeps-fields")
		vAssert(len(e.Isoschizomers) == len(b.Isoschizomers) && len(e.CommercialAvailability) == len(b.CommercialAvailability), "export-keeps-list-lengths")
		for i := 0; i < len(e.Isoschizomers) && i < len(b.Isoschizomers); i++ {
			vAssert(vEqStr(e.Isoschizomers[i], b.Isoschizomers[i]), "export-keeps-isoschizomers")
		}
		for i := 0; i < len(e.CommercialAvailability) && i < len(b.CommercialAvailability); i++ {
			vAssert(vEqStr(e.CommercialAvailability[i], b.CommercialAvailability[i]), "export-keeps-suppliers")
		}
	}
}

// Export through the JSON TEXT layer: the exported bytes parse back to the same map
func Harness_C16_ExportText() {
	vJSONText()
	var e Enzyme
	e.Name = "Eco\"RI<1>"
	e.RecognitionSequence = vBytes(3, c16Printable())
	e.MethylationSite = "3(6) & more"
	e.MicroOrganism = "Escherichia coli \\ RY13"
	e.Isoschizomers = []string{vBytes(2, c16NoComma()), "Fun\tII"}
	e.CommercialAvailability = nil
	m := map[string]Enzyme{e.Name: e, "Zzz": {Name: "Zzz", Isoschizomers: []string{}}}
	text := Export(m)
	var back map[string]Enzyme
	err := vUnmarshalEnzymes(text, &back)
	vAssert(err == nil, "export-text-parses-back")
	vAssert(len(back) == 2, "export-text-keeps-every-entry")
	b, ok := back[e.Name]
	vAssert(ok, "export-text-keeps-keys")
	vAssert(vAnd(vEqStr(b.RecognitionSequence, e.RecognitionSequence), vEqStr(b.MethylationSite, e.MethylationSite), vEqStr(b.MicroOrganism, e.MicroOrganism)), "export-text-keeps-fields")
	vAssert(len(b.Isoschizomers) == 2 && vEqStr(b.Isoschizomers[0], e.Isoschizomers[0]) && b.Isoschizomers[1] == "Fun\tII", "export-text-keeps-isoschizomers")
	vAssert(len(b.CommercialAvailability) == 0 && len(back["Zzz"].Isoschizomers) == 0, "export-text-keeps-empty-lists")
}

func Selftest_C16_ExportText() {
	vJSONText()
	m := Parse([]byte("REBASE codes for commercial sources of enzymes\n\n                B        Life \"Tech\" <x> & (3/21)\n\n<1>AaaI\n<2>XmaIII,BseX3I\n<3>C^GGCCG\n<4>\n<5>Acetobacter aceti\n<6>M. Fukaya\n<7>B\n<8>Tagami, H. (1988) \\ pp.\n\n<1>AarI\n<2>\n<3>CACCTGC(4/8)\n<4>\n<5>o\n<6>s\n<7>\n<8>r\n\n"))
	vOut(string(Export(m)))
}
