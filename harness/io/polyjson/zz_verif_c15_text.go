//go:build verif_sym || verif_native

package polyjson

// C15, JSON text layer: Write -> file -> Read with the engine's JSON encoder /
// parser (natively: the real encoding/json), text fields symbolic over characters
// that JSON has to escape.
//
// verif:bound C15 text-layer clause: one record written with polyjson.Write to an (in-memory) file and read back with polyjson.Read; a 6-byte description over the characters \ " < > & u 0 2 3 6 c e x and a 3-byte qualifier value over , ] } space a, everything else concrete
// verif:bound C15 non-ASCII clause: a definition and a qualifier value made of one of 9 concrete non-ASCII characters (2-, 3- and 4-byte UTF-8, U+2028, U+FFFF, U+10000, U+1D6FC, U+10FFFF) between two symbolic ASCII bytes over \ " u d 8 space a, written with polyjson.Write and read back
// verif:assume C15 text layer: the engine's JSON text encoder / parser follows encoding/json's documented rules (validated byte for byte against the real package on the repository's sample.json and on generated records in the selftests); symbolic bytes ASCII only (non-ASCII text concrete, valid UTF-8), no floats

import (
	"encoding/json"
	"io/ioutil"
	"os"

	"github.com/TimothyStiles/poly"
)

func Harness_C15_TextLayer() {
	vJSONText()
	var seq poly.Sequence
	seq.Sequence = "acgtac"
	seq.Description = vBytes(6, "\\\"<>&u0236cex")
	seq.Meta.Name = "rec"
	seq.Meta.Definition = "a \"quoted\" <definition> & more"
	seq.Meta.Other = map[string]string{"COMMENT": "x"}
	f := poly.Feature{Type: "gene", Attributes: map[string]string{"note": vBytes(3, ",]} a")}, SequenceLocation: poly.Location{Start: 1, End: 4}}
	seq.AddFeature(&f)
	path := os.TempDir() + "/polysym-c15-text.json"
	var back poly.Sequence
	panicked := vPanics(func() {
		Write(seq, path)
		back = Read(path)
		os.Remove(path)
	})
	vAssert(!panicked, "write-read-does-not-panic")
	if panicked {
		return
	}
	vAssert(vEqStr(back.Sequence, seq.Sequence), "text-sequence-equal")
	vAssert(vEqStr(back.Description, seq.Description), "text-description-equal")
	vAssert(vEqStr(back.Meta.Definition, seq.Meta.Definition), "text-definition-equal")
	vAssert(len(back.Features) == 1, "text-feature-count-equal")
	if len(back.Features) == 1 {
		vAssert(vEqStr(back.Features[0].Attributes["note"], seq.Features[0].Attributes["note"]), "text-qualifier-equal")
		vAssert(back.Features[0].SequenceLocation.Start == 1 && back.Features[0].SequenceLocation.End == 4, "text-location-equal")
	}
	vCover("C15 a backslash in the description", seq.Description[0] == '\\')
}

var c15Runes = []string{"\u00e9", "\u03c0", "\u4e2d", "\u2028", "\uffff", "\U00010000", "\U0001d6fc", "\U0010ffff", "\u00e9\U0001d6fc\u4e2d"}

// non-ASCII text survives the file: multi-byte UTF-8 next to characters that are escaped
func Harness_C15_NonASCII() {
	vJSONText()
	r := c15Runes[vChoice(len(c15Runes))]
	var seq poly.Sequence
	seq.Sequence = "acgt"
	seq.Meta.Definition = vBytes(1, "\\\"ud8 a") + r + vBytes(1, "\\\"ud8 a")
	f := poly.Feature{Type: "gene", Attributes: map[string]string{"note": r + vBytes(1, "d8c a")}, SequenceLocation: poly.Location{Start: 0, End: 2}}
	seq.AddFeature(&f)
	path := os.TempDir() + "/polysym-c15-utf8.json"
	var back poly.Sequence
	panicked := vPanics(func() {
		Write(seq, path)
		back = Read(path)
		os.Remove(path)
	})
	vAssert(!panicked, "write-read-does-not-panic")
	if panicked {
		return
	}
	vAssert(vEqStr(back.Meta.Definition, seq.Meta.Definition), "non-ascii-definition-equal")
	vAssert(len(back.Features) == 1, "text-feature-count-equal")
	if len(back.Features) == 1 {
		vAssert(vEqStr(back.Features[0].Attributes["note"], seq.Features[0].Attributes["note"]), "non-ascii-qualifier-equal")
	}
}

func Selftest_C15_TextLayer() {
	vJSONText()
	b, err := ioutil.ReadFile("../../data/sample.json")
	if err != nil {
		vOut("cannot read sample.json")
		return
	}
	s := Parse(b)
	vOut(s.Meta.Name + "|" + s.Meta.Locus.Name + "|" + s.Meta.Definition + "|" + s.Meta.Organism)
	vOut(s.Sequence)
	for _, f := range s.Features {
		vOut(f.Type + " " + f.GbkLocationString + " " + f.Attributes["product"] + " " + f.GetSequence())
	}
	text, _ := json.MarshalIndent(s, "", " ")
	vOut(string(text))
	compact, _ := json.Marshal(s.Meta)
	vOut(string(compact))
	var tricky poly.Sequence
	tricky.Description = "tab\there \"q\" back\\slash <tag> & \x01 \x7f end"
	tricky.Meta.Other = map[string]string{"b": "2", "a": "1", "C": "3"}
	tricky.Features = []poly.Feature{{Type: "x", SequenceLocation: poly.Location{SubLocations: []poly.Location{}}}}
	text, _ = json.MarshalIndent(tricky, ">", "\t")
	vOut(string(text))
	back := Parse(text)
	vOut(back.Description + "|" + back.Meta.Other["a"] + back.Meta.Other["b"] + back.Meta.Other["C"])
	var wide poly.Sequence
	wide.Description = "\u00e9 \u03c0 \u4e2d \u2028\u2029 \U0001d6fc \U0010ffff \xff bad \xe4\xb8 cut"
	wide.Meta.Other = map[string]string{"cl\u00e9": "\U00010000"}
	text, _ = json.Marshal(wide)
	vOut(string(text))
	back = Parse(text)
	vOut(back.Description + "|" + back.Meta.Other["cl\u00e9"])
	esc := Parse([]byte("{\"description\": \"\\ud835\\udefc|\\ud835 x|\\udefc|\\u00e9|\\u1d6fc|\\ud835\\u0041|\\uD835\\uDEFC\"}"))
	vOut(esc.Description)
	bad := Parse([]byte("{\"description\": \"x\", }"))
	vOut("bad:" + bad.Description)
}
