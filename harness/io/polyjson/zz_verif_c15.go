//go:build verif_sym || verif_native

package polyjson

// C15: JSON is a lossless interchange form for annotated sequences.
//
// verif:bound C15 structured sequences: every string field of Meta / Locus / Reference / Feature one symbolic printable byte (metadata) or 1..2 bytes, the sequence 5 symbolic letters, Locus flags and region bounds symbolic, feature coordinates from six spans (whole, interior, zero-width inside / at either end, last base); 0..1 (quick) / 0..2 (thorough) references, Other map absent / empty / one entry, 0..1 features with a location tree of depth <= 1 (quick) / 2 for the first feature (thorough) with symbolic partial flags, attribute map absent / empty / one entry
// verif:bound C15 degenerate records: sequence of 0 or 1 symbolic letters carrying 1..2 features over the spans (0,L) (0,0) (L,L), alone or as a join of two, complement symbolic
// verif:bound C15 format round trip: one GenBank record (4 feature tables, one with two qualifiers whose keys differ only in case; every iteration order of the qualifier maps for the direct write) and one GFF record with symbolic name, words, qualifier / attribute values and sequence: Build(Parse(text)) equals Build(polyjson.Parse(JSON(Parse(text)))) byte for byte
// verif:assume C15 encoding/json is replaced by a contract model that walks the REAL struct types and tags of /repo's current source (exported fields, json:"name", json:"-", omitempty, duplicate names dropped, case-insensitive decode, nil <-> null); the JSON text layer (syntax, escaping, non-ASCII) is not modelled
// verif:bound C15 outside the claim: JSON text syntax and escaping, non-ASCII text, temp files (Read/Write), long records

import (
	"encoding/json"

	"github.com/TimothyStiles/poly"
	"github.com/TimothyStiles/poly/io/genbank"
	"github.com/TimothyStiles/poly/io/gff"
)

func c15Printable() string {
	var b []byte
	for c := byte(32); c < 127; c++ {
		b = append(b, c)
	}
	return string(b)
}

func c15Str() string { return vBytes(1, c15Printable()) }

func c15Loc(depth int, L int) poly.Location { return c15LocAt(depth, L, true) }

func c15LocAt(depth int, L int, top bool) poly.Location {
	var l poly.Location
	if depth > 0 && vChoice(2) == 1 {
		n := 1
		if top {
			n = 1 + vChoice(vTier(1, 2))
		}
		l.Join = vBool()
		l.Complement = vBool()
		for i := 0; i < n; i++ {
			l.SubLocations = append(l.SubLocations, c15LocAt(depth-1, L, false))
		}
		return l
	}
	coords := [][2]int{{0, L}, {1, 3}, {2, 2}, {L, L}, {0, 0}, {L - 1, L}}
	if !top {
		coords = coords[:3] // nested leaves: three spans
	}
	se := coords[vChoice(len(coords))]
	l.Start, l.End = se[0], se[1]
	l.Complement = vBool()
	l.FivePrimePartial = vBool()
	l.ThreePrimePartial = vBool()
	if vChoice(2) == 1 {
		l.SubLocations = []poly.Location{} // empty, not absent
	}
	return l
}

func c15EqLoc(a, b poly.Location) bool {
	r := vAnd(vEqInt(a.Start, b.Start), vEqInt(a.End, b.End), vIff(a.Complement, b.Complement), vIff(a.Join, b.Join),
		vIff(a.FivePrimePartial, b.FivePrimePartial), vIff(a.ThreePrimePartial, b.ThreePrimePartial), len(a.SubLocations) == len(b.SubLocations))
	for i := 0; i < len(a.SubLocations) && i < len(b.SubLocations); i++ {
		r = vAnd(r, c15EqLoc(a.SubLocations[i], b.SubLocations[i]))
	}
	return r
}

func c15EqMap(a, b map[string]string) bool {
	r := vAnd(len(a) == len(b))
	for k, v := range a {
		w, ok := b[k]
		r = vAnd(r, ok, vEqStr(v, w))
	}
	return r
}

func Harness_C15_RoundTrip() {
	const L = 5
	var seq poly.Sequence
	seq.Sequence = vBytes(L, "acgtn")
	seq.Description = c15Str()
	seq.SequenceHash = c15Str()
	seq.SequenceHashFunction = c15Str()
	m := &seq.Meta
	m.Name, m.GffVersion, m.Type, m.Date, m.Definition = c15Str(), c15Str(), c15Str(), c15Str(), c15Str()
	m.Accession, m.Version, m.Keywords, m.Organism, m.Source, m.Origin = c15Str(), c15Str(), c15Str(), c15Str(), c15Str(), c15Str()
	m.RegionStart, m.RegionEnd, m.Size = vInt(-5, 1000), vInt(-5, 1000), vInt(-5, 1000)
	m.Locus = poly.Locus{c15Str(), c15Str(), c15Str(), c15Str(), c15Str(), c15Str(), vBool(), vBool()}
	nr := vChoice(vTier(2, 3))
	for i := 0; i < nr; i++ {
		m.References = append(m.References, poly.Reference{c15Str(), c15Str(), c15Str(), c15Str(), c15Str(), c15Str(), c15Str()})
	}
	switch vChoice(3) {
	case 1:
		m.Other = map[string]string{}
	case 2:
		m.Other = map[string]string{"COMMENT": vBytes(2, c15Printable())}
	}
	nf := vChoice(2)
	var before []string
	for i := 0; i < nf; i++ {
		var f poly.Feature
		f.Name, f.Source, f.Type, f.Score, f.Strand, f.Phase = c15Str(), c15Str(), c15Str(), c15Str(), c15Str(), c15Str()
		f.GbkLocationString, f.Sequence, f.SequenceHash, f.Description, f.SequenceHashFunction = c15Str(), c15Str(), c15Str(), c15Str(), c15Str()
		switch vChoice(3) {
		case 1:
			f.Attributes = map[string]string{}
		case 2:
			f.Attributes = map[string]string{"gene": vBytes(2, c15Printable())}
		}
		f.SequenceLocation = c15Loc(1+vTier(0, 1)*(1-i), L) // depth 2 only for the first feature in thorough
		seq.AddFeature(&f)
	}
	for i := 0; i < nf; i++ {
		before = append(before, seq.Features[i].GetSequence())
	}
	text, err := json.MarshalIndent(seq, "", " ")
	vAssert(err == nil, "serialises")
	var back poly.Sequence
	panicked := vPanics(func() { back = Parse(text) })
	vAssert(!panicked, "reads-back-without-panic")
	if panicked {
		return
	}
	vAssert(vAnd(vEqStr(back.Sequence, seq.Sequence), vEqStr(back.Description, seq.Description), vEqStr(back.SequenceHash, seq.SequenceHash), vEqStr(back.SequenceHashFunction, seq.SequenceHashFunction)), "sequence-fields-equal")
	bm := back.Meta
	vAssert(vAnd(vEqStr(bm.Name, m.Name), vEqStr(bm.GffVersion, m.GffVersion), vEqStr(bm.Type, m.Type), vEqStr(bm.Date, m.Date), vEqStr(bm.Definition, m.Definition),
		vEqStr(bm.Accession, m.Accession), vEqStr(bm.Version, m.Version), vEqStr(bm.Keywords, m.Keywords), vEqStr(bm.Organism, m.Organism), vEqStr(bm.Source, m.Source), vEqStr(bm.Origin, m.Origin),
		vEqInt(bm.RegionStart, m.RegionStart), vEqInt(bm.RegionEnd, m.RegionEnd), vEqInt(bm.Size, m.Size)), "meta-fields-equal")
	bl, ml := bm.Locus, m.Locus
	vAssert(vAnd(vEqStr(bl.Name, ml.Name), vEqStr(bl.SequenceLength, ml.SequenceLength), vEqStr(bl.MoleculeType, ml.MoleculeType), vEqStr(bl.GenbankDivision, ml.GenbankDivision),
		vEqStr(bl.ModificationDate, ml.ModificationDate), vEqStr(bl.SequenceCoding, ml.SequenceCoding), vIff(bl.Circular, ml.Circular), vIff(bl.Linear, ml.Linear)), "locus-fields-equal")
	vAssert(len(bm.References) == nr, "reference-count-equal")
	for i := 0; i < nr && i < len(bm.References); i++ {
		a, b := m.References[i], bm.References[i]
		vAssert(vAnd(vEqStr(a.Index, b.Index), vEqStr(a.Authors, b.Authors), vEqStr(a.Title, b.Title), vEqStr(a.Journal, b.Journal), vEqStr(a.PubMed, b.PubMed), vEqStr(a.Remark, b.Remark), vEqStr(a.Range, b.Range)), "reference-fields-equal")
	}
	vAssert(c15EqMap(m.Other, bm.Other), "other-keywords-equal")
	vAssert(len(back.Features) == nf, "feature-count-equal")
	for i := 0; i < nf && i < len(back.Features); i++ {
		a, b := seq.Features[i], back.Features[i]
		vAssert(vAnd(vEqStr(a.Name, b.Name), vEqStr(a.Source, b.Source), vEqStr(a.Type, b.Type), vEqStr(a.Score, b.Score), vEqStr(a.Strand, b.Strand), vEqStr(a.Phase, b.Phase),
			vEqStr(a.GbkLocationString, b.GbkLocationString), vEqStr(a.Sequence, b.Sequence), vEqStr(a.SequenceHash, b.SequenceHash), vEqStr(a.Description, b.Description), vEqStr(a.SequenceHashFunction, b.SequenceHashFunction)), "feature-fields-equal")
		vAssert(c15EqMap(a.Attributes, b.Attributes), "feature-attributes-equal")
		vAssert(c15EqLoc(a.SequenceLocation, b.SequenceLocation), "feature-location-equal")
		vAssert(b.ParentSequence != nil, "feature-relinked-to-parent")
		if b.ParentSequence != nil {
			var after string
			p2 := vPanics(func() { after = b.GetSequence() })
			vAssert(!p2, "relinked-feature-sequence-does-not-panic")
			if !p2 {
				vAssert(vEqStr(after, before[i]), "feature-reports-same-sequence-as-before")
			}
		}
	}
	vCover("C15 nested location", nf > 0 && len(seq.Features[0].SequenceLocation.SubLocations) > 0)
	vCover("C15 absent collections", nf == 0 && nr == 0 && m.Other == nil)
	vCover("C15 a feature with attributes", nf > 0 && len(seq.Features[0].Attributes) > 0)
}

// degenerate records: an empty or one-letter sequence that still carries features
func Harness_C15_DegenerateSequence() {
	L := vChoice(2)
	var seq poly.Sequence
	seq.Sequence = vBytes(L, "acgtn")
	seq.Meta.Name = c15Str()
	nf := 1 + vChoice(2)
	var before []string
	for i := 0; i < nf; i++ {
		var f poly.Feature
		f.Type = c15Str()
		leaf := func() poly.Location {
			se := [][2]int{{0, L}, {0, 0}, {L, L}}[vChoice(3)]
			return poly.Location{Start: se[0], End: se[1], Complement: vBool()}
		}
		if vChoice(2) == 1 {
			f.SequenceLocation = poly.Location{Join: true, SubLocations: []poly.Location{leaf(), leaf()}}
		} else {
			f.SequenceLocation = leaf()
		}
		seq.AddFeature(&f)
	}
	for i := 0; i < nf; i++ {
		before = append(before, seq.Features[i].GetSequence())
	}
	text, err := json.MarshalIndent(seq, "", " ")
	vAssert(err == nil, "serialises")
	var back poly.Sequence
	panicked := vPanics(func() { back = Parse(text) })
	vAssert(!panicked, "reads-back-without-panic")
	if panicked {
		return
	}
	vAssert(vEqStr(back.Sequence, seq.Sequence), "sequence-fields-equal")
	vAssert(len(back.Features) == nf, "feature-count-equal")
	for i := 0; i < nf && i < len(back.Features); i++ {
		b := back.Features[i]
		vAssert(c15EqLoc(seq.Features[i].SequenceLocation, b.SequenceLocation), "feature-location-equal")
		vAssert(b.ParentSequence != nil, "feature-relinked-to-parent")
		if b.ParentSequence != nil {
			var after string
			p2 := vPanics(func() { after = b.GetSequence() })
			vAssert(!p2, "relinked-feature-sequence-does-not-panic")
			if !p2 {
				vAssert(vEqStr(after, before[i]), "feature-reports-same-sequence-as-before")
			}
		}
	}
}

// Converting parser output to JSON and back gives the same GenBank / GFF text as
// writing the parsed input directly.
func Harness_C15_FormatRoundTrip() {
	name := vBytes(3, "abcdefhijklnpqswxyz")
	word := vBytes(2, "abcdefghijklmnopqrstuvwxyzABCDEFGHIJKLMNOPQRSTUVWXYZ")
	val := vBytes(2, "abcdefghijklmnopqrstuvwxyz0123456789")
	seq := vBytes(12, "acgt")
	feat := ""
	switch vChoice(4) {
	case 3:
		// two qualifiers whose keys differ only in case: different keys, both kept, in one fixed order
		feat = "     gene            1..3\n                     /Note=\"" + val + "\"\n                     /note=\"x\"\n"
	case 1:
		feat = "     gene            1..3\n                     /gene=\"" + val + "\"\n"
	case 2:
		feat = "     CDS             complement(join(1..2,4..5))\n                     /product=\"" + val + "\"\n                     /note=\"x y\"\n     misc_feature    <2..>3\n"
	}
	gbk := "LOCUS       " + name + "             12 bp    DNA     circular SYN 12-APR-2021\n" +
		"DEFINITION  Synthetic " + word + " construct.\nACCESSION   AB0001\nVERSION     AB0001.1\nKEYWORDS    .\nSOURCE      synthetic DNA construct\n  ORGANISM  synthetic DNA construct\n" +
		"REFERENCE   1  (bases 1 to 12)\n  AUTHORS   Doe,J.\n  TITLE     Direct " + word + "\n  JOURNAL   Unpublished\n  REMARK    noted\nCOMMENT     c " + word + "\n" +
		"FEATURES             Location/Qualifiers\n" + feat + "ORIGIN\n        1 " + seq[:10] + " " + seq[10:] + "\n//\n"
	a := genbank.Parse([]byte(gbk))
	for i := range a.Features {
		vObserveMap(a.Features[i].Attributes) // the direct write is explored under every iteration order of the qualifier maps
	}
	direct := genbank.Build(a)
	js, err := json.MarshalIndent(a, "", " ")
	vAssert(err == nil, "serialises")
	viaJSON := genbank.Build(Parse(js))
	vAssert(vEqStr(string(direct), string(viaJSON)), "genbank-to-json-and-back-writes-the-same-text")

	gf := "##gff-version 3\n##sequence-region " + name + " 1 12\n" + name + "\tsrc\tgene\t2\t9\t.\t+\t.\tID=" + val + ";Name=" + word + "\n###\n##FASTA\n>" + name + "\n" + seq + "\n"
	g := gff.Parse([]byte(gf))
	gdirect := gff.Build(g)
	gjs, _ := json.MarshalIndent(g, "", " ")
	gvia := gff.Build(Parse(gjs))
	vAssert(vEqStr(string(gdirect), string(gvia)), "gff-to-json-and-back-writes-the-same-text")
}
