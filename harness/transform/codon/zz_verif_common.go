//go:build verif_sym || verif_native

package codon

import "sort"

// NCBI genetic codes written independently of the library's 64-letter strings:
// the standard code plus, per table, the list of reassigned codons (NCBI
// "Differences from the Standard Code"), and the start / stop codon lists.

const ncbiStd = "FFLLSSSSYY**CC*WLLLLPPPPHHQQRRRRIIIMTTTTNNKKSSRRVVVVAAAADDEEGGGG"
const ncbiBases = "TCAG"

var ncbiIDs = []int{1, 2, 3, 4, 5, 6, 9, 10, 11, 12, 13, 14, 16, 21, 22, 23, 24, 25, 26, 27, 28, 29, 30, 31, 33}

func ncbiDiffs(id int) string {
	switch id {
	case 2:
		return "AGA* AGG* ATAM TGAW"
	case 3:
		return "ATAM CTTT CTCT CTAT CTGT TGAW"
	case 4:
		return "TGAW"
	case 5:
		return "AGAS AGGS ATAM TGAW"
	case 6:
		return "TAAQ TAGQ"
	case 9:
		return "AAAN AGAS AGGS TGAW"
	case 10:
		return "TGAC"
	case 12:
		return "CTGS"
	case 13:
		return "AGAG AGGG ATAM TGAW"
	case 14:
		return "AAAN AGAS AGGS TAAY TGAW"
	case 16:
		return "TAGL"
	case 21:
		return "TGAW ATAM AGAS AGGS AAAN"
	case 22:
		return "TCA* TAGL"
	case 23:
		return "TTA*"
	case 24:
		return "AGAS AGGK TGAW"
	case 25:
		return "TGAG"
	case 26:
		return "CTGA"
	case 27:
		return "TAGQ TAAQ TGAW"
	case 28:
		return "TAAQ TAGQ TGAW"
	case 29:
		return "TAAY TAGY"
	case 30:
		return "TAAE TAGE"
	case 31:
		return "TGAW TAGE TAAE"
	case 33:
		return "TAAY TGAW AGAS AGGK"
	}
	return ""
}

func ncbiStarts(id int) string {
	switch id {
	case 1:
		return "TTG CTG ATG"
	case 2:
		return "ATT ATC ATA ATG GTG"
	case 3:
		return "ATA ATG GTG"
	case 4:
		return "TTA TTG CTG ATT ATC ATA ATG GTG"
	case 5:
		return "TTG ATT ATC ATA ATG GTG"
	case 9, 21:
		return "ATG GTG"
	case 11:
		return "TTG CTG ATT ATC ATA ATG GTG"
	case 12, 26:
		return "CTG ATG"
	case 13:
		return "TTG ATA ATG GTG"
	case 23:
		return "ATT ATG GTG"
	case 24, 33:
		return "TTG CTG ATG GTG"
	case 25:
		return "TTG ATG GTG"
	}
	return "ATG" // 6 10 14 16 22 27 28 29 30 31
}

func ncbiStops(id int) string {
	switch id {
	case 1, 11, 12, 26, 28:
		return "TAA TAG TGA"
	case 2:
		return "TAA TAG AGA AGG"
	case 6, 27, 29, 30:
		return "TGA"
	case 14, 33:
		return "TAG"
	case 16:
		return "TAA TGA"
	case 22:
		return "TCA TAA TGA"
	case 23:
		return "TTA TAA TAG TGA"
	}
	return "TAA TAG" // 3 4 5 9 10 13 21 24 25 31
}

func ncbiIndex(c string) int {
	p := func(b byte) int {
		for i := 0; i < 4; i++ {
			if ncbiBases[i] == b {
				return i
			}
		}
		return -1
	}
	return p(c[0])*16 + p(c[1])*4 + p(c[2])
}

// ncbiCode returns the 64-letter amino-acid string of table id in TCAG order.
func ncbiCode(id int) string {
	b := []byte(ncbiStd)
	d := ncbiDiffs(id)
	for i := 0; i+4 <= len(d); i += 5 {
		b[ncbiIndex(d[i:i+3])] = d[i+3]
	}
	return string(b)
}

// position of a base letter (either case) in TCAG order, as a lookup table
func ncbiPosTable() string {
	t := make([]byte, 256)
	for i := 0; i < 4; i++ {
		t[ncbiBases[i]] = byte(i)
		t[ncbiBases[i]+32] = byte(i)
	}
	return string(t)
}

func c08Ascii() string {
	b := make([]byte, 128)
	for i := range b {
		b[i] = byte(i)
	}
	return string(b)
}


func c06SameSet(a []string, b string) bool {
	var w []string
	for i := 0; i+3 <= len(b); i += 4 {
		w = append(w, b[i:i+3])
	}
	x := append([]string{}, a...)
	sort.Strings(x)
	sort.Strings(w)
	if len(x) != len(w) {
		return false
	}
	for i := range x {
		if x[i] != w[i] {
			return false
		}
	}
	return true
}


func itoa(x int) string {
	if x == 0 {
		return "0"
	}
	neg := x < 0
	if neg {
		x = -x
	}
	var b []byte
	for x > 0 {
		b = append([]byte{byte('0' + x%10)}, b...)
		x /= 10
	}
	if neg {
		return "-" + string(b)
	}
	return string(b)
}
