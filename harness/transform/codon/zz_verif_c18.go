//go:build verif_sym || verif_native

package codon

// C18: combining codon tables adds or averages usage and keeps the code.
//
// verif:bound C18 add clause: two full 64-codon tables of any of the 25 codes with 128 symbolic 64-bit weights in [-2^40, 2^40]: every weight is the sum, letters / triplets / start and stop codons are the first table's
// verif:bound C18 compromise clause: one amino acid with 2 (quick) / 2..3 (thorough) synonymous codons, weights of both tables enumerated over 0..3 (quick) / 0..5 with 2 codons and 0..2 with 3 codons (thorough) with at least one positive weight per table, cut-off a symbolic real in [-1, 2]; the second table lists its codons in the same or in the opposite order
// verif:bound C18 composition clause: compromise of two mini tables (weights enumerated 0..3 | 0..4 with 2 codons and 0..3 with 3 codons, cut-off in {0, 0.2, 0.5, 1}) handed to Optimize: an error when no codon survives, otherwise the emitted codon has both shares at or above the cut-off
// verif:assume C18 compromise: the shares int(float64(w)/float64(t)*10000) are computed concretely with real float64 arithmetic (weights are concrete on each path); only the cut-off is symbolic and int(10000*cutOff) is abstracted to real arithmetic with truncation (rounding of that product is outside the claim)
// verif:bound C18 compromise-after-reweighting clause: two mini tables (weights 0..2) combined, the first re-weighted in place from one of three alanine sequences and combined again: equal to combining fresh tables holding the same weights (cut-off 0, 0.2, 0.5); everything enumerated, executed by the engine without a solver query
// verif:bound C18 outside the claim: floating-point rounding of 10000*cutOff; tables re-weighted from long random sequences; fully symbolic weights in the compromise

func c18Table(id int, tag string) (Table, map[string]int) {
	base := GetCodonTable(id)
	w := map[string]int{}
	var aas []AminoAcid
	for _, aa := range base.AminoAcids {
		var cs []Codon
		for _, c := range aa.Codons {
			x := vInt(-(1 << 40), 1<<40)
			w[c.Triplet] = x
			cs = append(cs, Codon{c.Triplet, x})
		}
		aas = append(aas, AminoAcid{aa.Letter, cs})
	}
	return Table{append([]string{}, base.StartCodons...), append([]string{}, base.StopCodons...), aas}, w
}

func Harness_C18_Add() {
	id := ncbiIDs[vChoice(len(ncbiIDs))]
	a, wa := c18Table(id, "a")
	b, wb := c18Table(id, "b")
	sum := AddCodonTable(a, b)
	code := ncbiCode(id)
	vAssert(len(sum.AminoAcids) == len(a.AminoAcids), "same-amino-acids")
	n := 0
	for i, aa := range sum.AminoAcids {
		if i < len(a.AminoAcids) {
			vAssert(aa.Letter == a.AminoAcids[i].Letter, "letters-are-the-first-tables")
			vAssert(len(aa.Codons) == len(a.AminoAcids[i].Codons), "same-codons-per-amino-acid")
		}
		for j, c := range aa.Codons {
			vAssert(vEqInt(c.Weight, wa[c.Triplet]+wb[c.Triplet]), "weight-is-the-sum")
			vAssert(code[ncbiIndex(c.Triplet)] == aa.Letter[0], "assignment-kept")
			if i < len(a.AminoAcids) && j < len(a.AminoAcids[i].Codons) {
				vAssert(c.Triplet == a.AminoAcids[i].Codons[j].Triplet, "triplets-in-first-tables-order")
			}
			n++
		}
	}
	vAssert(n == 64, "sixty-four-codons")
	vAssert(c06SameSet(sum.StartCodons, ncbiStarts(id)) && c06SameSet(sum.StopCodons, ncbiStops(id)), "start-stop-kept")
}

func c18Mini(w []int) Table {
	triplets := []string{"GCT", "GCC", "GCA"}
	var cs []Codon
	for i, x := range w {
		cs = append(cs, Codon{triplets[i], x})
	}
	return Table{[]string{"ATG"}, []string{"TAA"}, []AminoAcid{{"A", cs}}}
}

// c18MiniRev: the same table as c18Mini(w) with its codons listed in the opposite order
func c18MiniRev(w []int) Table {
	t := c18Mini(w)
	cs := t.AminoAcids[0].Codons
	for i, j := 0, len(cs)-1; i < j; i, j = i+1, j-1 {
		cs[i], cs[j] = cs[j], cs[i]
	}
	return t
}

func c18WeightOf(t Table, triplet string) int {
	for _, c := range t.AminoAcids[0].Codons {
		if c.Triplet == triplet {
			return c.Weight
		}
	}
	return -1
}

func Harness_C18_Compromise() {
	vRealMode()
	k := 2 + vChoice(vTier(1, 2))
	hi := vTier(4, 6)
	if k == 3 {
		hi = 3
	}
	rev := vChoice(2) == 1 // the second table lists the same codons in another order (weights 0..2 then)
	if rev {
		hi = 3
	}
	w1 := make([]int, k)
	w2 := make([]int, k)
	t1, t2 := 0, 0
	for i := 0; i < k; i++ {
		w1[i] = vChoice(hi)
		w2[i] = vChoice(hi)
		t1 += w1[i]
		t2 += w2[i]
	}
	if t1 == 0 || t2 == 0 {
		vAssume(false)
	}
	cut := vFloat(-1, 2)
	a, b := c18Mini(w1), c18Mini(w2)
	if rev {
		b = c18MiniRev(w2)
	}
	var r, rs Table
	var err, errs error
	panicked := vPanics(func() { r, err = CompromiseCodonTable(a, b, cut); rs, errs = CompromiseCodonTable(b, a, cut) })
	vAssert(!panicked, "compromise-does-not-panic")
	if panicked {
		return
	}
	outside := vOr(cut < 0, cut > 1)
	vAssert(vIff(err != nil, outside), "error-iff-cutoff-outside-0-1")
	vAssert((err != nil) == (errs != nil), "symmetric-error")
	if err != nil {
		return
	}
	vAssert(len(r.AminoAcids) == 1 && r.AminoAcids[0].Letter == "A" && len(r.AminoAcids[0].Codons) == k, "code-kept")
	vAssert(len(r.StartCodons) == 1 && r.StartCodons[0] == "ATG" && len(r.StopCodons) == 1 && r.StopCodons[0] == "TAA", "start-stop-kept")
	if len(r.AminoAcids) != 1 || len(r.AminoAcids[0].Codons) != k || len(rs.AminoAcids) != 1 || len(rs.AminoAcids[0].Codons) != k {
		return
	}
	for i := 0; i < k; i++ {
		got := r.AminoAcids[0].Codons[i].Weight
		vAssert(r.AminoAcids[0].Codons[i].Triplet == a.AminoAcids[0].Codons[i].Triplet, "triplets-kept")
		vAssert(vEqInt(got, c18WeightOf(rs, a.AminoAcids[0].Codons[i].Triplet)), "symmetric-in-the-two-tables")
		// exact shares scaled to 10000: s = floor(10000*w/t); the float computation in the code may
		// differ by one unit from the exact floor except where the share is exactly 0 or 10000
		fs1, fs2 := 10000*w1[i]/t1, 10000*w2[i]/t2
		pow2 := func(t int) bool { return t&(t-1) == 0 }
		ex1 := w1[i] == 0 || w1[i] == t1 || pow2(t1) // w/t is exact in binary floating point
		ex2 := w2[i] == 0 || w2[i] == t2 || pow2(t2)
		cutW := int(10000 * cut) // truncation, over the reals
		slack := func(exact bool) int {
			if exact {
				return 0
			}
			return 1
		}
		// zero is required when a share is below the cut-off even allowing for the rounding unit,
		// the mean is required when both shares reach the cut-off even allowing for it
		mustZero := vOr(vLtInt(fs1+slack(ex1), cutW), vLtInt(fs2+slack(ex2), cutW))
		mustMean := vAnd(vLeInt(cutW, fs1-slack(ex1)), vLeInt(cutW, fs2-slack(ex2)))
		n1, n2 := 10000*w1[i]*t2, 10000*w2[i]*t1 // s1 = n1/(t1*t2), s2 = n2/(t1*t2)
		den := 2 * t1 * t2
		lo := (n1+n2)/den - 2
		hiV := (n1 + n2 + den - 1) / den
		inRange := vAnd(vLeInt(lo, got), vLeInt(got, hiV))
		vAssert(vImplies(mustZero, vEqInt(got, 0)), "zero-when-a-share-is-below-the-cutoff")
		vAssert(vImplies(mustMean, inRange), "mean-when-both-shares-reach-the-cutoff")
		vAssert(vOr(vEqInt(got, 0), inRange), "weight-is-zero-or-mean-of-shares")
		below, above := mustZero, mustMean
		vCover("C18 a codon removed by the cut-off", vAnd(below, w1[i] > 0 && w2[i] > 0))
		vCover("C18 a codon kept with a positive cut-off", vAnd(above, cut > 0))
	}
}

// the compromise depends on the weights the tables hold now, not on what the same storage held
// when it was combined before
func Harness_C18_CompromiseAfterReweighting() {
	k := 2 + vChoice(vTier(1, 2))
	w1 := make([]int, k)
	w2 := make([]int, k)
	t1, t2 := 0, 0
	for i := 0; i < k; i++ {
		w1[i] = vChoice(3)
		w2[i] = vChoice(3)
		t1 += w1[i]
		t2 += w2[i]
	}
	if t1 == 0 || t2 == 0 {
		vAssume(false)
	}
	cut := []float64{0, 0.2, 0.5}[vChoice(3)]
	a, b := c18Mini(w1), c18Mini(w2)
	_, err := CompromiseCodonTable(a, b, cut)
	vAssert(err == nil, "cutoff-accepted")
	seq := []string{"GCTGCTGCC", "GCCGCC", "GCAGCTGCT"}[vChoice(3)]
	a = a.OptimizeTable(seq) // re-weighted in place: same storage, new weights
	var now []int
	total := 0
	for _, c := range a.AminoAcids[0].Codons {
		now = append(now, c.Weight)
		total += c.Weight
	}
	if total == 0 {
		vAssume(false)
	}
	got, err2 := CompromiseCodonTable(a, b, cut)
	want, err3 := CompromiseCodonTable(c18Mini(now), c18Mini(w2), cut) // the same weights in fresh storage
	vAssert(err2 == nil && err3 == nil, "cutoff-accepted")
	if err2 != nil || err3 != nil {
		return
	}
	for i := 0; i < k; i++ {
		vAssert(got.AminoAcids[0].Codons[i].Weight == want.AminoAcids[0].Codons[i].Weight, "compromise-depends-on-the-current-weights-only")
	}
}

// a gene optimised with a compromise table never uses a codon rarer than the cut-off in either organism
func Harness_C18_OptimiseWithCompromise() {
	k := 2 + vChoice(vTier(1, 2))
	hi := vTier(4, 5)
	if k == 3 {
		hi = 4
	}
	w1 := make([]int, k)
	w2 := make([]int, k)
	t1, t2 := 0, 0
	for i := 0; i < k; i++ {
		w1[i] = vChoice(hi)
		w2[i] = vChoice(hi)
		t1 += w1[i]
		t2 += w2[i]
	}
	if t1 == 0 || t2 == 0 {
		vAssume(false)
	}
	cut := []float64{0, 0.2, 0.5, 1}[vChoice(4)]
	comp, err := CompromiseCodonTable(c18Mini(w1), c18Mini(w2), cut)
	vAssert(err == nil, "cutoff-accepted")
	if err != nil {
		return
	}
	var dna string
	var oerr error
	panicked := vPanics(func() { dna, oerr = Optimize("A", comp) })
	vAssert(!panicked, "optimise-does-not-panic")
	if panicked {
		return
	}
	usable := false
	for _, c := range comp.AminoAcids[0].Codons {
		if c.Weight > 0 {
			usable = true
		}
	}
	if !usable {
		vAssert(oerr != nil, "no-codon-above-the-cutoff-is-an-error")
		return
	}
	if oerr != nil {
		return // every remaining codon may still be below the optimiser's own 10% threshold
	}
	triplets := []string{"GCT", "GCC", "GCA"}
	for i := 0; i < k; i++ {
		if dna == triplets[i] {
			// shares as the code computes them (truncated to 1/10000)
			s1 := int(float64(w1[i]) / float64(t1) * 10000)
			s2 := int(float64(w2[i]) / float64(t2) * 10000)
			cw := int(10000 * cut)
			vAssert(s1 >= cw && s2 >= cw, "optimised-gene-uses-no-codon-rarer-than-the-cutoff-in-either-organism")
			vAssert(comp.AminoAcids[0].Codons[i].Weight > 0, "optimised-gene-uses-only-codons-kept-by-the-compromise")
		}
	}
}

func Selftest_C18_Vectors() {
	a := c18Mini([]int{3, 1, 0})
	b := c18Mini([]int{1, 1, 2})
	s := AddCodonTable(a, b)
	for _, c := range s.AminoAcids[0].Codons {
		vOut(c.Triplet + string(rune('0'+c.Weight)))
	}
	for _, cut := range []float64{0, 0.1, 0.3, 0.5, 1} {
		r, _ := CompromiseCodonTable(a, b, cut)
		line := ""
		for _, c := range r.AminoAcids[0].Codons {
			line += c.Triplet + ":" + itoa(c.Weight) + " "
		}
		vOut(line)
	}
	_, err := CompromiseCodonTable(a, b, -0.1)
	vOut(err.Error())
	_, err = CompromiseCodonTable(a, b, 1.5)
	vOut(err.Error())
}

