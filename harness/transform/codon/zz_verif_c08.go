//go:build verif_sym || verif_native

package codon

import (
	"encoding/json"
	"io/ioutil"
)

// C08: codon usage tables count exactly and never leak between calls.
//
// verif:bound C08 counting clause: coding sequences over all 128 ASCII values (any case, non-ACGT letters, lengths not divisible by 3), length 0..7 (quick) / 0..10 (thorough), tables 1 and 11
// verif:bound C08 long-sequence clause: coding sequences of 12300 and 24600 (quick) / 4098..65538 (thorough) bases: periodic concrete body, the last two complete codons symbolic
// verif:bound C08 history clause: operation sequences of length 2..3 (quick) / 2..4 (thorough) over 'request default table a', 're-weight default table a with a symbolic one-codon sequence', 'add two held tables', table id pairs {1,2}, {1,11}, {27,28} (the last two share their amino-acid strings); every held table compared with a value-semantics model after every step
// verif:bound C08 serialise/parse clause: a default table serialised to JSON text, parsed, re-weighted with a symbolic codon, the same text parsed again (must be pristine), the re-weighted table serialised and parsed (JSON text layer of the engine)
// verif:bound C08 outside the claim: concurrent re-weighting and the race detector (pre-emption between synchronisation points is not modelled); sequences longer than the bound

func c08Upper(s string) string {
	b := make([]byte, len(s))
	for i := 0; i < len(s); i++ {
		b[i] = vIteByte(vAnd(s[i] >= 'a', s[i] <= 'z'), s[i]-32, s[i])
	}
	return string(b)
}

// number of in-frame occurrences of triplet in the upper-cased sequence, as a term
func c08Count(up string, triplet string) int {
	cnt := 0
	for i := 0; i+3 <= len(up); i += 3 {
		cnt += vIteInt(vEqStr(up[i:i+3], triplet), 1, 0)
	}
	return cnt
}

func Harness_C08_Counting() {
	id := []int{1, 11}[vChoice(2)]
	n := vChoice(vTier(8, 11))
	s := vBytes(n, c08Ascii())
	table := GetCodonTable(id).OptimizeTable(s)
	up := c08Upper(s)
	code := ncbiCode(id)
	total := 0
	for _, aa := range table.AminoAcids {
		vAssert(len(aa.Letter) == 1, "letter-is-one-character")
		for _, c := range aa.Codons {
			vAssert(vEqInt(c.Weight, c08Count(up, c.Triplet)), "weight-is-in-frame-count")
			vAssert(len(c.Triplet) == 3 && len(aa.Letter) == 1 && code[ncbiIndex(c.Triplet)] == aa.Letter[0], "assignment-untouched")
			total++
		}
	}
	vAssert(total == 64, "sixty-four-codons")
	if n >= 6 {
		vCover("C08 the same codon twice in different case", vAnd(vEqStr(up[0:3], up[3:6]), vNot(vEqStr(s[0:3], s[3:6])), vEqStr(up[0:3], "GCT")))
	}
}

type c08Held struct {
	t     Table
	model map[string]int // triplet -> expected weight
	id    int
}

func c08Check(h c08Held, clause string) {
	code := ncbiCode(h.id)
	n := 0
	for _, aa := range h.t.AminoAcids {
		for _, c := range aa.Codons {
			vAssert(vEqInt(c.Weight, h.model[c.Triplet]), clause)
			vAssert(code[ncbiIndex(c.Triplet)] == aa.Letter[0], "assignment-untouched")
			n++
		}
	}
	vAssert(n == 64, "sixty-four-codons")
}

func c08Triplets() []string {
	var out []string
	for a := 0; a < 4; a++ {
		for b := 0; b < 4; b++ {
			for c := 0; c < 4; c++ {
				out = append(out, string([]byte{ncbiBases[a], ncbiBases[b], ncbiBases[c]}))
			}
		}
	}
	return out
}

func Harness_C08_History() {
	steps := 2 + vChoice(vTier(2, 3))
	// table pairs: different codes (1, 2); codes with identical amino-acid strings (1, 11) and (27, 28)
	ids := [][]int{{1, 2}, {1, 11}, {27, 28}}[vChoice(3)]
	var held []c08Held
	touched := map[int]int{}    // id -> number of operations that requested the default table
	reweighted := map[int]bool{} // id -> some operation re-weighted the default table
	type op struct{ kind, a int }
	var ops []op
	for st := 0; st < steps; st++ {
		k := vChoice(3)
		switch k {
		case 0: // request default table
			a := vChoice(2)
			ops = append(ops, op{0, a})
			touched[ids[a]]++
		case 1: // re-weight default table with a one-codon sequence
			a := vChoice(2)
			ops = append(ops, op{1, a})
			touched[ids[a]]++
			reweighted[ids[a]] = true
		case 2:
			ops = append(ops, op{2, 0})
		}
	}
	leak := false
	for _, id := range ids {
		if reweighted[id] && touched[id] >= 2 {
			leak = true
		}
	}
	vFinding("C08-F1", leak)
	for _, o := range ops {
		switch o.kind {
		case 0:
			id := ids[o.a]
			m := map[string]int{}
			for _, t := range c08Triplets() {
				m[t] = 1
			}
			held = append(held, c08Held{GetCodonTable(id), m, id})
		case 1:
			id := ids[o.a]
			s := vBytes(3, "ACGTacgt")
			up := c08Upper(s)
			m := map[string]int{}
			for _, t := range c08Triplets() {
				m[t] = c08Count(up, t)
			}
			held = append(held, c08Held{GetCodonTable(id).OptimizeTable(s), m, id})
		case 2:
			if len(held) < 2 {
				vAssume(false)
			}
			x, y := held[len(held)-2], held[len(held)-1]
			m := map[string]int{}
			for _, t := range c08Triplets() {
				m[t] = x.model[t] + y.model[t]
			}
			held = append(held, c08Held{AddCodonTable(x.t, y.t), m, x.id})
		}
		for _, h := range held {
			c08Check(h, "every-held-table-matches-value-semantics-model")
		}
	}
	vCover("C08 history re-weights one table and requests another", reweighted[ids[0]] && touched[ids[1]] > 0 && !leak)
}

// serialise / parse as operations of the history: a table parsed from JSON text is a value of
// its own, whatever happened to earlier tables parsed from the same text
func Harness_C08_SerialiseParse() {
	vJSONText()
	id := []int{1, 11}[vChoice(2)]
	text, err := json.Marshal(GetCodonTable(id))
	vAssert(err == nil, "serialises")
	a := ParseCodonJSON(text)
	ones := map[string]int{}
	for _, t := range c08Triplets() {
		ones[t] = 1
	}
	c08Check(c08Held{a, ones, id}, "parsed-table-equals-the-serialised-one")
	s := vBytes(3, "ACGTacgt")
	up := c08Upper(s)
	m := map[string]int{}
	for _, t := range c08Triplets() {
		m[t] = c08Count(up, t)
	}
	b := a.OptimizeTable(s)
	c08Check(c08Held{b, m, id}, "re-weighted-parsed-table")
	c := ParseCodonJSON(text)
	c08Check(c08Held{c, ones, id}, "second-parse-of-the-same-text-is-pristine")
	// and the text of a re-weighted table parses back to the re-weighted weights
	text2, _ := json.MarshalIndent(b, "", " ")
	d := ParseCodonJSON(text2)
	c08Check(c08Held{d, m, id}, "re-weighted-table-survives-serialise-parse")
}

// long coding sequences (chunked / parallel counting would show here)
func Harness_C08_LongCounting() {
	sizes := []int{12300, 24600}
	if vTier(0, 1) == 1 {
		sizes = []int{4098, 12288, 12300, 24600, 49155, 65538}
	}
	n := sizes[vChoice(len(sizes))]
	body := make([]byte, n)
	for i := range body {
		body[i] = "GCTGCTAAAGCTTTTGCTGGA"[i%21]
	}
	// the symbolic codons come last (a symbolic codon early in the sequence would turn every later
	// count into a chain of thousands of conditional increments)
	last := (n/3)*3 - 6
	s := string(body[:last]) + vBytes(6, "ACGTacgt") + string(body[last+6:])
	table := GetCodonTable(11).OptimizeTable(s)
	up := c08Upper(s)
	for _, aa := range table.AminoAcids {
		for _, c := range aa.Codons {
			vAssert(vEqInt(c.Weight, c08Count(up, c.Triplet)), "weight-is-in-frame-count")
		}
	}
}
func Selftest_C08_JSON() {
	vJSONText()
	b, err := ioutil.ReadFile("../../data/bsub_codon_test.json")
	if err != nil {
		vOut("cannot read")
		return
	}
	t := ParseCodonJSON(b)
	out := ""
	for _, aa := range t.AminoAcids {
		out += aa.Letter + ":"
		for _, c := range aa.Codons {
			out += c.Triplet + "=" + itoa(c.Weight) + ","
		}
		out += ";"
	}
	vOut(out)
	text, _ := json.MarshalIndent(t, "", " ")
	vOut(string(text))
}

func Selftest_C08_Vectors() {
	t := GetCodonTable(11).OptimizeTable("ATGGCTgctGCTtaaNNN-x")
	// the order of amino acids follows Go's map iteration order: print in a fixed order
	for _, l := range []string{"A", "M", "*"} {
		for _, aa := range t.AminoAcids {
			if aa.Letter == l {
				for _, c := range aa.Codons {
					vOut(aa.Letter + c.Triplet + string(rune('0'+c.Weight)))
				}
			}
		}
	}
	m := getCodonFrequency("ATGATGGCC")
	vOut(string(rune('0'+m["ATG"])) + string(rune('0'+m["GCC"])) + string(rune('0'+m["TTT"])))
}
