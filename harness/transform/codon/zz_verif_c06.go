//go:build verif_sym || verif_native

package codon

// C06: translation implements the NCBI genetic codes codon by codon.
//
// verif:bound C06 after-optimisation clause: tables 1 and 11 re-weighted from ATG+xxx+TAA (xxx one of six codons), the translated protein optimised with that table, then a symbolic codon translated under a freshly requested table: NCBI assignment
// verif:bound C06 codon clause: all 25 table ids x every codon over {A,C,G,T,a,c,g,t}^3 (complete: the solver decides all 512 spellings of the 64 codons per table)
// verif:bound C06 table-pair clause: every ordered pair of different tables (quick: pairs whose codes differ) used in sequence i, j, i on a symbolic upper-case codon
// verif:bound C06 start/stop lists: closed comparison for the 25 tables (no symbolic input)
// verif:bound C06 concatenation/partial-codon/case clauses: tables 1, 2, 11 and one more chosen by VERIF_SEED, strings over {A,C,G,T,a,c,g,t} of length 1..7 (quick) / 1..10 (thorough), every codon-boundary split
// verif:bound C06 long-input clause: strings of about 1023, 2046, 2049, 4095, 4098 (+0..2) letters (quick) and further sizes up to 65538 (thorough): a concrete periodic body with 13 symbolic letters at the start, middle and end; splits at the first, middle and last codon boundary
// verif:bound C06 outside the claim: fully symbolic strings longer than 10 letters


func Harness_C06_CodonTable() {
	id := ncbiIDs[vChoice(len(ncbiIDs))]
	table := GetCodonTable(id)
	cod := vBytes(3, "ACGTacgt")
	got, err := Translate(cod, table)
	vAssert(err == nil, "codon-accepted")
	vAssert(len(got) == 1, "one-residue-per-codon")
	pos := ncbiPosTable()
	idx := vTable(pos, cod[0])*16 + vTable(pos, cod[1])*4 + vTable(pos, cod[2])
	want := vTable(ncbiCode(id), idx)
	if len(got) == 1 {
		vAssert(got[0] == want, "codon-translates-to-ncbi-assignment")
	}
	vCover("C06 lower-case codon", cod[0] >= 'a')
}

func Harness_C06_StartStop() {
	id := ncbiIDs[vChoice(len(ncbiIDs))]
	table := GetCodonTable(id)
	vAssert(c06SameSet(table.StartCodons, ncbiStarts(id)), "start-codons-equal-ncbi")
	vAssert(c06SameSet(table.StopCodons, ncbiStops(id)), "stop-codons-equal-ncbi")
	// the table carries all 64 codons exactly once
	seen := map[string]bool{}
	n := 0
	for _, aa := range table.AminoAcids {
		for _, c := range aa.Codons {
			vAssert(!seen[c.Triplet], "codon-listed-once")
			seen[c.Triplet] = true
			n++
		}
	}
	vAssert(n == 64, "sixty-four-codons")
}

// two different tables used one after the other in the same process: no state may carry over
func Harness_C06_TablePairs() {
	i := vChoice(len(ncbiIDs))
	j := vChoice(len(ncbiIDs))
	if i == j {
		vAssume(false)
	}
	if vTier(0, 1) == 0 && ncbiCode(ncbiIDs[i]) == ncbiCode(ncbiIDs[j]) {
		vAssume(false)
	}
	cod := vBytes(3, "ACGT")
	pos := ncbiPosTable()
	idx := vTable(pos, cod[0])*16 + vTable(pos, cod[1])*4 + vTable(pos, cod[2])
	for _, id := range []int{ncbiIDs[i], ncbiIDs[j], ncbiIDs[i]} {
		got, err := Translate(cod, GetCodonTable(id))
		vAssert(err == nil && len(got) == 1, "one-residue-per-codon")
		if len(got) == 1 {
			vAssert(got[0] == vTable(ncbiCode(id), idx), "codon-translates-to-ncbi-assignment-after-another-table-was-used")
		}
	}
}

// translation under a freshly requested table is the NCBI assignment whatever was re-weighted
// and optimised earlier in the same process
func Harness_C06_AfterOptimize() {
	id := []int{1, 11}[vChoice(2)]
	cds := "ATG" + []string{"GCC", "GCT", "CTG", "AGA", "TGG", "TCG"}[vChoice(6)] + "TAA"
	protein, _ := Translate(cds, GetCodonTable(id))
	table := GetCodonTable(id).OptimizeTable(cds)
	panicked := vPanics(func() { Optimize(protein, table) })
	vAssert(!panicked, "optimize-does-not-panic")
	cod := vBytes(3, "ACGT")
	pos := ncbiPosTable()
	idx := vTable(pos, cod[0])*16 + vTable(pos, cod[1])*4 + vTable(pos, cod[2])
	got, err := Translate(cod, GetCodonTable(id))
	vAssert(err == nil && len(got) == 1, "one-residue-per-codon")
	if len(got) == 1 {
		vAssert(got[0] == vTable(ncbiCode(id), idx), "codon-translates-to-ncbi-assignment-after-an-optimisation")
	}
}

func c06Upper(s string) string {
	b := make([]byte, len(s))
	for i := 0; i < len(s); i++ {
		b[i] = vIteByte(s[i] >= 'a', s[i]-32, s[i])
	}
	return string(b)
}

func Harness_C06_Concatenation() {
	ids := []int{1, 2, 11, ncbiIDs[vTier(3, 16)]}
	id := ids[vChoice(len(ids))]
	table := GetCodonTable(id)
	n := 1 + vChoice(vTier(7, 10))
	s := vBytes(n, "ACGTacgt")
	whole, err := Translate(s, table)
	vAssert(err == nil, "accepted")
	vAssert(len(whole) == n/3, "one-residue-per-complete-codon")
	// trailing partial codon is ignored
	if n%3 != 0 && n >= 3 {
		full, _ := Translate(s[:n-n%3], table)
		vAssert(vEqStr(whole, full), "trailing-partial-codon-ignored")
	}
	// every codon-boundary split
	for k := 3; k < n; k += 3 {
		a, _ := Translate(s[:k], table)
		b, _ := Translate(s[k:], table)
		vAssert(vEqStr(whole, a+b), "translation-of-concatenation")
	}
	up, _ := Translate(c06Upper(s), table)
	vAssert(vEqStr(whole, up), "case-irrelevant")
	vCover("C06 more than one codon with a partial tail", n >= 7 && n%3 != 0)
}

// long inputs: the translation of a long string equals the concatenation of the translations of
// its codon-aligned halves, for lengths around typical buffer / window sizes
func Harness_C06_Long() {
	table := GetCodonTable([]int{1, 11}[vChoice(2)])
	sizes := []int{1023, 2046, 2049, 4095, 4098}
	if vTier(0, 1) == 1 {
		sizes = []int{510, 513, 1023, 1026, 2046, 2049, 2052, 4095, 4098, 8190, 8193, 65535, 65538}
	}
	n := sizes[vChoice(len(sizes))] + vChoice(3)
	// a concrete periodic body with symbolic codons at the start, in the middle and at the end
	body := make([]byte, n)
	for i := range body {
		body[i] = "ATGGCTAAACCGTTTGGA"[i%18]
	}
	mid := (n / 2 / 3) * 3
	s := vBytes(3, "ACGTacgt") + string(body[3:mid]) + vBytes(6, "ACGTacgt") + string(body[mid+6:n-4]) + vBytes(4, "ACGTacgt")
	whole, err := Translate(s, table)
	vAssert(err == nil, "accepted")
	vAssert(len(whole) == n/3, "one-residue-per-complete-codon")
	for _, k := range []int{3, mid, mid + 3, (n/3 - 1) * 3} {
		a, _ := Translate(s[:k], table)
		b, _ := Translate(s[k:], table)
		vAssert(vEqStr(whole, a+b), "translation-of-concatenation")
	}
	up, _ := Translate(c06Upper(s), table)
	vAssert(vEqStr(whole, up), "case-irrelevant")
}

func Selftest_C06_Vectors() {
	gfp := "ATGGCTAGCAAAGGAGAAGAACTTTTCACTGGAGTTGTCCCAATTCTTGTTGAATTAGATGGTGATGTTAATGGGCACAAATTTTCTGTCAGTGGAGAGGGTGAAGGTGATGCTACATACGGAAAGCTTACCCTTAAATTTATTTGCACTACTGGAAAACTACCTGTTCCATGGCCAACACTTGTCACTACTTTCTCTTATGGTGTTCAATGCTTTTCCCGTTATCCGGATCATATGAAACGGCATGACTTTTTCAAGAGTGCCATGCCCGAAGGTTATGTACAGGAACGCACTATATCTTTCAAAGATGACGGGAACTACAAGACGCGTGCTGAAGTCAAGTTTGAAGGTGATACCCTTGTTAATCGTATCGAGTTAAAAGGTATTGATTTTAAAGAAGATGGAAACATTCTCGGACACAAACTCGAGTACAACTATAACTCACACAATGTATACATCACGGCAGACAAACAAAAGAATGGAATCAAAGCTAACTTCAAAATTCGCCACAACATTGAAGATGGATCCGTTCAACTAGCAGACCATTATCAACAAAATACTCCAATTGGCGATGGCCCTGTCCTTTTACCAGACAACCATTACCTGTCGACACAATCTGCCCTTTCGAAAGATCCCAACGAAAAGCGTGACCACATGGTCCTTCTTGAGTTTGTAACTGCTGCTGGGATTACACATGGCATGGATGAGCTCTACAAATAA"
	for _, id := range []int{1, 11, 2, 4} {
		t, _ := Translate(gfp, GetCodonTable(id))
		vOut(t)
	}
	low := "atggctagcaaaggagaagaacttttcac"
	t, _ := Translate(low, GetCodonTable(11))
	vOut(t)
	t, _ = Translate("ATggCTagC", GetCodonTable(11))
	vOut(t)
	_, err := Translate("", GetCodonTable(11))
	vOut(err.Error())
	_, err = Translate("ATG", Table{})
	vOut(err.Error())
	for _, id := range ncbiIDs {
		vOut(ncbiCode(id))
	}
}
