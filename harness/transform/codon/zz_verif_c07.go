//go:build verif_sym || verif_native

package codon

// C07: optimized coding sequences translate back to the requested protein.
//
// verif:bound C07 re-weighting clause: a default table re-weighted from a one-alanine coding sequence, optimised, re-weighted again and optimised again (all 4x4 alanine codon choices, 3x3 stop codons)
// verif:bound C07 round-trip clause: default tables 1, 2, 11, 27, 31 (quick) / all 25 (thorough), proteins of 1..2 letters over the table's own letters, every value of every rand.Intn draw
// verif:bound C07 no-crash clause: proteins of 1..2 bytes over all 128 ASCII values on tables 1 and 11: error or a correct result, never a panic
// verif:bound C07 refusal-then-acceptance clause: a 2-residue protein 'M'+x with x symbolic over A k space J 1 * newline (refused unless it is a table letter), then a protein of 1 (quick) / 1..2 (thorough) table letters optimised in the same process, tables 1 and 11
// verif:bound C07 non-ASCII clause: a symbolic table letter followed by one of 7 non-ASCII characters (2-, 3-, 4-byte UTF-8; several whose low byte spells a table letter), tables 1 and 11: rejected
// verif:bound C07 threshold clause: one amino acid with 2 (quick) / 3 (thorough) synonymous codons, symbolic weights 0..15 (quick) / 0..63 (thorough): every emitted codon has 10*w > sum(w) and w > 0; an amino acid whose synonyms all have weight 0 is rejected with an error
// verif:bound C07 random-protein clause: random.ProteinSequence of length 3 (quick) / 3..4 (thorough) for every value of its rand.Intn draws, optimised under tables 1, 11 (quick) / 1, 2, 11, 27, 31 (thorough; length 4 under tables 1 and 27 only); tables without a '*' letter (27, 31) must reject the generator's trailing '*'
// verif:assume C07 math/rand.Intn(n) returns an arbitrary value in [0,n) and panics for n <= 0; rand.Seed and the clock have no effect
// verif:bound C07 exact threshold clause: 2 synonyms with weights enumerated 0..20 (thorough: second weight also in multiples of 9), 3 synonyms 0..6 (quick) / 0..12 (thorough): real float64 arithmetic, all rand.Intn draws symbolic
// verif:assume C07 threshold clause: float64 division and comparison in chooser() are abstracted to real arithmetic (rounding is outside the claim)
// verif:bound C07 outside the claim: the statistical proportionality clause (nothing is claimed about math/rand's distribution); proteins longer than the bound

import "github.com/TimothyStiles/poly/random"

func c07Letters(id int) string {
	code := ncbiCode(id)
	seen := map[byte]bool{}
	var out []byte
	for i := 0; i < len(code); i++ {
		if !seen[code[i]] {
			seen[code[i]] = true
			out = append(out, code[i])
		}
	}
	return string(out)
}

func c07TableID() int {
	if vTier(0, 1) == 1 {
		return ncbiIDs[vChoice(len(ncbiIDs))]
	}
	return []int{1, 2, 11, 27, 31}[vChoice(5)]
}

func Harness_C07_RoundTrip() {
	id := c07TableID()
	table := GetCodonTable(id)
	n := 1 + vChoice(2)
	p := vBytes(n, c07Letters(id))
	var dna string
	var err error
	panicked := vPanics(func() { dna, err = Optimize(p, table) })
	vAssert(!panicked, "optimize-does-not-panic")
	vAssert(err == nil, "encodable-protein-accepted")
	vAssert(len(dna) == 3*n, "three-bases-per-residue")
	back, err2 := Translate(dna, table)
	vAssert(err2 == nil, "result-translates")
	vAssert(vEqStr(back, p), "translates-back-to-the-protein")
}

func Harness_C07_NoCrash() {
	id := []int{1, 11}[vChoice(2)]
	table := GetCodonTable(id)
	n := 1 + vChoice(2)
	p := vBytes(n, c08Ascii())
	var dna string
	var err error
	panicked := vPanics(func() { dna, err = Optimize(p, table) })
	vAssert(!panicked, "unencodable-residue-is-an-error-not-a-crash")
	if !panicked && err == nil {
		back, _ := Translate(dna, table)
		vAssert(len(dna) == 3*n, "three-bases-per-residue")
		vAssert(vEqStr(back, p), "translates-back-to-the-protein")
	}
	vCover("C07 lower-case residue", vAnd(p[0] >= 'a', p[0] <= 'z'))
}

// a refused protein leaves nothing behind: the next protein optimised in the same process is
// answered as if it were the first
func Harness_C07_RefusedThenAccepted() {
	id := []int{1, 11}[vChoice(2)]
	table := GetCodonTable(id)
	// the first protein: a valid residue followed by an arbitrary byte (refused unless that byte is a table letter)
	first := "M" + vBytes(1, "Ak J1*\n")
	n := 1 + vChoice(vTier(1, 2))
	second := vBytes(n, c07Letters(id))
	var dna string
	var err1, err2 error
	panicked := vPanics(func() {
		_, err1 = Optimize(first, table)
		dna, err2 = Optimize(second, table)
	})
	vAssert(!panicked, "optimize-does-not-panic")
	if panicked {
		return
	}
	vAssert(err2 == nil, "encodable-protein-accepted-after-a-refusal")
	vAssert(len(dna) == 3*n, "three-bases-per-residue-after-a-refusal")
	if err2 == nil && len(dna) == 3*n {
		back, _ := Translate(dna, table)
		vAssert(vEqStr(back, second), "translates-back-to-the-protein-after-a-refusal")
	}
	vCover("C07 the first protein was refused", err1 != nil)
}

// a residue outside ASCII is a residue the table cannot encode, whatever its low byte spells
func Harness_C07_NonASCIIResidue() {
	id := []int{1, 11}[vChoice(2)]
	table := GetCodonTable(id)
	r := []string{"\u0144", "\u0141", "\u014b", "\u0153", "\u00e9", "\u4e2d", "\U0001d6fc"}[vChoice(7)]
	p := vBytes(1, c07Letters(id)) + r
	var err error
	panicked := vPanics(func() { _, err = Optimize(p, table) })
	vAssert(!panicked, "unencodable-residue-is-an-error-not-a-crash")
	vAssert(err != nil, "non-ascii-residue-is-rejected")
}

func Harness_C07_Threshold() {
	vRealMode()
	k := vTier(2, 3)
	hi := vTier(15, 63)
	triplets := []string{"GCT", "GCC", "GCA"}[:k]
	w := make([]int, k)
	var codons []Codon
	sum := 0
	for i := 0; i < k; i++ {
		w[i] = vInt(0, hi)
		sum += w[i]
		codons = append(codons, Codon{triplets[i], w[i]})
	}
	table := Table{[]string{"ATG"}, []string{"TAA"}, []AminoAcid{{"A", codons}}}
	var dna string
	var err error
	panicked := vPanics(func() { dna, err = Optimize("A", table) })
	vAssert(!panicked, "optimize-does-not-panic")
	// some codon is eligible iff some codon has 10*w > sum and w > 0
	eligible := vOr()
	for i := 0; i < k; i++ {
		eligible = vOr(eligible, vAnd(vLtInt(sum, 10*w[i]), vLtInt(0, w[i])))
	}
	if panicked {
		return
	}
	if err != nil {
		vAssert(vNot(eligible), "error-only-when-no-codon-is-eligible")
		return
	}
	vAssert(eligible, "no-eligible-codon-is-an-error")
	vAssert(len(dna) == 3, "three-bases-per-residue")
	for i := 0; i < k; i++ {
		if dna == triplets[i] {
			vAssert(vAnd(vLtInt(sum, 10*w[i]), vLtInt(0, w[i])), "emitted-codon-has-share-above-ten-percent")
			vCover("C07 a rare synonym exists but is not emitted", vAnd(vLtInt(0, w[(i+1)%k]), vNot(vLtInt(sum, 10*w[(i+1)%k]))))
		}
	}
}

// the same clause with ENUMERATED weights: chooser()'s float64 division and comparison are then
// executed with real IEEE arithmetic (no abstraction), which decides the exact 10% boundary
func Harness_C07_ThresholdExact() {
	k := 2 + vChoice(vTier(1, 2))
	hi := 21
	if k == 3 {
		hi = vTier(7, 13)
	}
	triplets := []string{"GCT", "GCC", "GCA"}[:k]
	w := make([]int, k)
	var codons []Codon
	sum := 0
	for i := 0; i < k; i++ {
		w[i] = vChoice(hi)
		if i == 1 && k == 2 && vTier(0, 1) == 1 {
			w[i] = w[i] * 9 // also reach shares of exactly 10% with larger totals
		}
		sum += w[i]
		codons = append(codons, Codon{triplets[i], w[i]})
	}
	table := Table{[]string{"ATG"}, []string{"TAA"}, []AminoAcid{{"A", codons}}}
	var dna string
	var err error
	panicked := vPanics(func() { dna, err = Optimize("A", table) })
	vAssert(!panicked, "optimize-does-not-panic")
	if panicked {
		return
	}
	eligible := false
	for i := 0; i < k; i++ {
		if 10*w[i] > sum && w[i] > 0 {
			eligible = true
		}
	}
	vAssert((err == nil) == eligible, "error-exactly-when-no-codon-is-eligible")
	if err != nil {
		return
	}
	for i := 0; i < k; i++ {
		if dna == triplets[i] {
			vAssert(10*w[i] > sum && w[i] > 0, "emitted-codon-has-share-above-ten-percent")
		}
	}
	vCover("C07 a codon with a share of exactly ten percent", k == 2 && sum > 0 && 10*w[0] == sum)
}

// a table that is re-weighted, used, re-weighted again and used again: the second optimisation
// must follow the second weights (no chooser state may survive)
func Harness_C07_ReweightTwice() {
	id := []int{1, 11}[vChoice(2)]
	aCodons := []string{"GCT", "GCC", "GCA", "GCG"}
	first := aCodons[vChoice(4)]
	second := aCodons[vChoice(4)]
	stop1 := []string{"TAA", "TAG", "TGA"}[vChoice(3)]
	stop2 := []string{"TAA", "TAG", "TGA"}[vChoice(3)]
	table := GetCodonTable(id).OptimizeTable("ATG" + first + first + stop1)
	d1, e1 := Optimize("MA*", table)
	vAssert(e1 == nil, "first-optimisation-accepted")
	vAssert(d1 == "ATG"+first+stop1, "first-optimisation-uses-the-only-weighted-codons")
	table2 := table.OptimizeTable("ATG" + second + stop2)
	d2, e2 := Optimize("MA*", table2)
	vAssert(e2 == nil, "second-optimisation-accepted")
	vAssert(d2 == "ATG"+second+stop2, "second-optimisation-follows-the-second-weights")
	_, e3 := Optimize("MAK", table2)
	vAssert(e3 != nil, "residue-without-weight-is-rejected")
}

func Harness_C07_RandomProtein() {
	length := 3 + vChoice(vTier(1, 2))
	p, err := random.ProteinSequence(length, int64(vSeed()))
	vAssert(err == nil, "generator-accepts-length")
	vAssert(len(p) == length, "generator-length")
	id := 1
	if vTier(0, 1) == 1 {
		id = []int{1, 2, 11, 27, 31}[vChoice(5)]
		if length == 4 && id != 1 && id != 27 {
			vAssume(false) // length 4 under tables 1 and 27 only
		}
	} else {
		id = []int{1, 11}[vChoice(2)]
	}
	table := GetCodonTable(id)
	var dna string
	var err2 error
	panicked := vPanics(func() { dna, err2 = Optimize(p, table) })
	vAssert(!panicked, "generated-protein-optimises-without-panic")
	// the generator ends every protein with '*'; tables 27, 28 and 31 have no '*' amino acid (their
	// stop codons are context dependent), so there the protein holds a residue the table cannot
	// encode and an error is the required answer
	hasStop := false
	for _, aa := range table.AminoAcids {
		if aa.Letter == "*" {
			hasStop = true
		}
	}
	vAssert((err2 == nil) == hasStop, "generated-protein-is-encodable-iff-the-table-has-a-stop-letter")
	if !panicked && err2 == nil {
		back, _ := Translate(dna, table)
		vAssert(back == p, "translates-back-to-the-protein")
	}
}

func Selftest_C07_Vectors() {
	_, err := Optimize("", GetCodonTable(11))
	vOut(err.Error())
	_, err = Optimize("MK", Table{})
	vOut(err.Error())
	// W and M have a single codon in table 11: the result does not depend on rand
	d, _ := Optimize("MWMW", GetCodonTable(11))
	vOut(d)
}
