//go:build verif_sym || verif_native

package transform

// C11 (reverse-complement part): ReverseComplement, Complement, Reverse, ComplementBase.
//
// verif:bound C11 rc clauses: all strings over the 15 IUPAC DNA codes in both cases, length 0..5 (quick) / 0..8 (thorough); concatenation clause every split point
// verif:bound C11 long-string clause: lengths 511, 512, 513, 1025 (quick) and 255..65537 around powers of two (thorough): concrete IUPAC body, 7 symbolic letters at the ends and around the centre
// verif:bound C11 code-semantics clause: every single code in both cases (complete)
// verif:bound C11 outside the claim: strings longer than the stated lengths; non-IUPAC letters

const c11Upper = "ACGTRYSWKMBDHVN"
const c11Both = "ACGTRYSWKMBDHVNacgtryswkmbdhvn"

// oracle tables, written independently of the library's map
func c11CompTable() string {
	t := make([]byte, 256)
	pairs := "ATTACGGCRYYRSSWWKMMKBVVBDHHDNN"
	for i := 0; i < len(pairs); i += 2 {
		t[pairs[i]] = pairs[i+1]
		t[pairs[i]+32] = pairs[i+1] + 32
	}
	return string(t)
}

// base-set masks: A=1 C=2 G=4 T=8
func c11MaskTable() string {
	t := make([]byte, 256)
	set := func(c byte, m byte) { t[c] = m; t[c+32] = m }
	set('A', 1)
	set('C', 2)
	set('G', 4)
	set('T', 8)
	set('R', 1|4)
	set('Y', 2|8)
	set('S', 2|4)
	set('W', 1|8)
	set('K', 4|8)
	set('M', 1|2)
	set('B', 2|4|8)
	set('D', 1|4|8)
	set('H', 1|2|8)
	set('V', 1|2|4)
	set('N', 15)
	return string(t)
}

// complement of a base set: A<->T, C<->G
func c11SwapTable() string {
	t := make([]byte, 16)
	for m := 0; m < 16; m++ {
		var r byte
		if m&1 != 0 {
			r |= 8
		}
		if m&8 != 0 {
			r |= 1
		}
		if m&2 != 0 {
			r |= 4
		}
		if m&4 != 0 {
			r |= 2
		}
		t[m] = r
	}
	return string(t)
}

func c11OracleRC(s string, tab string) string {
	n := len(s)
	out := make([]byte, n)
	for i := 0; i < n; i++ {
		out[n-1-i] = vTable(tab, s[i])
	}
	return string(out)
}

func Harness_C11_ReverseComplement() {
	n := vChoice(vTier(6, 9))
	s := vBytes(n, c11Both)
	tab := c11CompTable()
	rc := ReverseComplement(s)
	vAssert(len(rc) == n, "rc-length")
	vAssert(vEqStr(rc, c11OracleRC(s, tab)), "rc-equals-oracle")
	vAssert(vEqStr(rc, Reverse(Complement(s))), "rc-is-reverse-of-complement")
	vAssert(vEqStr(rc, Complement(Reverse(s))), "rc-is-complement-of-reverse")
	for i := 0; i < n; i++ {
		vAssert(vIff(rc[n-1-i] >= 'a', s[i] >= 'a'), "rc-preserves-case")
	}
	vAssert(vEqStr(ReverseComplement(rc), s), "rc-involution")
	vAssert(len(Complement(s)) == n, "complement-length")
	vAssert(len(Reverse(s)) == n, "reverse-length")
	if n > 0 {
		vCover("C11 ambiguity code complemented", vOr(vEqStr(s[:1], "K"), vEqStr(s[:1], "b")))
	}
}

func Harness_C11_Concatenation() {
	n := 1 + vChoice(vTier(5, 8))
	k := vChoice(n + 1)
	s := vBytes(n, c11Both)
	a, b := s[:k], s[k:]
	vAssert(vEqStr(ReverseComplement(a+b), ReverseComplement(b)+ReverseComplement(a)), "rc-reverses-concatenation")
	vCover("C11 proper split", k > 0 && k < n)
}

func Harness_C11_CodeSemantics() {
	c := vByte(c11Both)
	mask, swap := c11MaskTable(), c11SwapTable()
	comp := byte(ComplementBase(rune(c)))
	vAssert(vTable(mask, comp) == vTable(swap, vTable(mask, c)), "complement-of-code-is-code-of-complementary-set")
	vAssert(vTable(mask, comp) != 0, "complement-is-a-code")
	vAssert(vIff(comp >= 'a', c >= 'a'), "complement-preserves-case")
	vCover("C11 three-base code", vTable(mask, c) == 14)
}

// long strings (size thresholds): a concrete body with symbolic letters at both ends and around the centre
func c11Long() (string, int) {
	sizes := []int{511, 512, 513, 1025}
	if vTier(0, 1) == 1 {
		sizes = []int{255, 257, 511, 512, 513, 1023, 1025, 4097, 65537}
	}
	n := sizes[vChoice(len(sizes))]
	body := make([]byte, n)
	for i := range body {
		body[i] = "ACGTRYKMBVDHSWN"[i%15]
	}
	c := n / 2
	s := vBytes(2, c11Both) + string(body[2:c-1]) + vBytes(3, c11Both) + string(body[c+2:n-2]) + vBytes(2, c11Both)
	return s, n
}

func Harness_C11_Long() {
	s, n := c11Long()
	tab := c11CompTable()
	rc := ReverseComplement(s)
	vAssert(len(rc) == n, "rc-length")
	vAssert(vEqStr(rc, c11OracleRC(s, tab)), "rc-equals-oracle")
	vAssert(vEqStr(rc, Reverse(Complement(s))), "rc-is-reverse-of-complement")
	vAssert(vEqStr(ReverseComplement(rc), s), "rc-involution")
	k := n / 3
	vAssert(vEqStr(rc, ReverseComplement(s[k:])+ReverseComplement(s[:k])), "rc-reverses-concatenation")
}
func Selftest_C11_Vectors() {
	for _, s := range []string{"", "ATGC", "atgc", "ACGTRYSWKMBDHVN", "acgtryswkmbdhvn", "GATTACA", "UuXx", "AAAATTTT"} {
		vOut(ReverseComplement(s))
		vOut(Complement(s))
		vOut(Reverse(s))
	}
}
