//go:build verif_sym || verif_native

package seqhash

// C12: circular sequences rotate to their lexicographically least rotation.
//
// verif:bound C12 all 256 byte values: length 0..6 (quick) / 0..7 (thorough); alphabet {A,B}: length <= 10 / 13; {A,B,C}: <= 8 / 9; ACGT: <= 7 / 8
// verif:bound C12 long-string clause: lengths 32767 and 65536 (quick) / 4097..100003 (thorough): a C/G/T body with a single A at 4 positions and two symbolic letters; expected result: the rotation starting at the A
// verif:bound C12 all-rotations-agree clause: length <= 5 (quick) / 6 (thorough) over all byte values
// verif:bound C12 call-independence clause: a sequence of 5..6 (quick) / 5..8 (thorough) letters over A C rotated first, then a sequence of 1..3 (quick) / 1..4 (thorough) ACGT letters (must be its own least rotation), then the first again (same result)
// verif:bound C12 outside the claim: strings longer than the stated lengths (the property's quantifier goes to 10^6)

func vC12Check(n int, dom string) {
	vC12CheckStr(vBytes(n, dom))
}

func vC12CheckStr(s string) {
	n := len(s)
	r := RotateSequence(s)
	vAssert(len(r) == n, "length-preserved")
	isRot := vOr()
	for k := 0; k < n || k == 0; k++ {
		rot := s[k:] + s[:k]
		isRot = vOr(isRot, vEqStr(r, rot))
		vAssert(vLexLE(r, rot), "least-rotation")
	}
	vAssert(isRot, "is-a-rotation")
	if n >= 2 {
		vCover("C12 non-trivial rotation chosen", vNot(vEqStr(r, s)))
	}
}

func Harness_C12_AllBytes() {
	n := vChoice(vTier(7, 8))
	vC12Check(n, "")
}

func Harness_C12_Binary() {
	n := vChoice(vTier(11, 14))
	vC12Check(n, "AB")
}

func Harness_C12_Ternary() {
	n := vChoice(vTier(9, 10))
	vC12Check(n, "ABC")
}

func Harness_C12_ACGT() {
	n := vChoice(vTier(8, 9))
	vC12Check(n, "ACGT")
}

// the result depends on this call's argument only: a shorter sequence rotated after a longer one,
// and the same sequence rotated again, in one process
func Harness_C12_AfterAnotherCall() {
	m := 5 + vChoice(vTier(2, 4))
	first := vBytes(m, "AC")
	r1 := RotateSequence(first)
	vAssert(len(r1) == m, "length-preserved")
	n := 1 + vChoice(vTier(3, 4))
	vC12CheckStr(vBytes(n, "ACGT"))
	vAssert(vEqStr(RotateSequence(first), r1), "same-argument-same-result")
}

// every rotation of a sequence is canonicalised to one and the same string
func Harness_C12_RotationsAgree() {
	n := 1 + vChoice(vTier(5, 6))
	k := vChoice(n)
	s := vBytes(n, "")
	a := RotateSequence(s)
	b := RotateSequence(s[k:] + s[:k])
	vAssert(vEqStr(a, b), "rotations-agree")
	vCover("C12 rotated input", k > 0)
}

// long circular strings: a body of C/G/T letters with exactly one A, whose position is the least rotation
func Harness_C12_Long() {
	sizes := []int{32767, 65536}
	if vTier(0, 1) == 1 {
		sizes = []int{4097, 32767, 32768, 32769, 65535, 65536, 65537, 100003}
	}
	n := sizes[vChoice(len(sizes))]
	k := []int{0, 1, n / 3, n - 1}[vChoice(4)]
	body := make([]byte, n)
	for i := range body {
		body[i] = "CGTGTC"[i%6]
	}
	body[k] = 'A'
	s := string(body)
	// three symbolic letters next to the A and far from it (never an A themselves)
	p1, p2 := (k+1)%n, (k+n/2)%n
	b := []byte(s)
	x := vBytes(2, "CGT")
	s = string(b[:p1]) + x[:1] + string(b[p1+1:])
	b2 := []byte(s)
	_ = b2
	if p2 != k && p2 != p1 {
		s = s[:p2] + x[1:] + s[p2+1:]
	}
	r := RotateSequence(s)
	vAssert(len(r) == n, "length-preserved")
	vAssert(vEqStr(r, s[k:]+s[:k]), "least-rotation")
	j := n / 7
	vAssert(vEqStr(RotateSequence(s[j:]+s[:j]), r), "rotations-agree")
}
func Selftest_C12_Vectors() {
	for _, s := range []string{"", "A", "TTAGCCCAT", "AAAAAAAAAAA", "ABAB", "BA", "ZYX", "CGATCGATAA", "baab", "\xff\x00\x80"} {
		vOut(RotateSequence(s))
	}
}
