//go:build verif_sym || verif_native

package seqhash

// C04: seqhash is invariant under rotation, strand, case and RNA/DNA spelling.
//
// verif:bound C04 rotation clause: sequences over the whole accepted alphabet of the type (both cases), length 1..3 (quick) / 1..4 (thorough), every rotation offset, both strandedness values, all three types; over ACGT additionally length 5 (quick) / 5..7 (thorough)
// verif:bound C04 long-molecule clause: circular DNA of 33001 (quick) / 4099, 33001, 65537, 70001 (thorough) letters with two symbolic letters, rotation offsets 1, n/2, n-3
// verif:bound C04 strand clause: sequences over the 15 IUPAC codes (plus U under RNA), both cases, length 1..3 (quick) / 1..4 (thorough), circular and linear
// verif:bound C04 case clause: length 1..3 (quick) / 1..4 (thorough); RNA/DNA clause: length 1..4 (quick) / 1..5 (thorough); all four flag combinations
// verif:bound C04 call-sequence clause: a hash of 2 symbolic ACGT letters, then a refused call (misspelt type / double-stranded protein) on a sequence of 2..3 symbolic ACGT letters, then that sequence and its rotation-by-one (circular) or reverse complement (linear double-stranded) hashed: equal
// verif:bound C04 outside the claim: longer sequences (the quantifier goes to 10^5)
// verif:assume C04 blake3.Sum256 is an uninterpreted function per input length (only congruence is used)

const c04Nuc = "ATUGCYRSWKMBDHVNZatugcyrswkmbdhvnz"
const c04Prot = "ACDEFGHIKLMNPQRSTVWYUO*BXZacdefghiklmnpqrstvwyuobxz"
const c04Iupac = "ACGTRYSWKMBDHVNacgtryswkmbdhvn"
const c04IupacU = "ACGTRYSWKMBDHVNUacgtryswkmbdhvnu"

func Harness_C04_Rotation() {
	n := 1 + vChoice(vTier(3, 4))
	k := vChoice(n)
	ti := vChoice(3)
	ds := vChoice(2) == 1
	if ti == 2 && ds {
		vAssume(false)
	}
	dom := c04Nuc
	if ti == 2 {
		dom = c04Prot
	}
	s := vBytes(n, dom)
	h1, e1 := Hash(s, c04Type(ti), true, ds)
	h2, e2 := Hash(s[k:]+s[:k], c04Type(ti), true, ds)
	vAssert(e1 == nil && e2 == nil, "accepted")
	vAssert(vEqStr(h1, h2), "rotation-invariant")
	vCover("C04 rotated by a non-zero offset", k > 0)
}

// the invariances hold whatever was hashed, or refused, earlier in the same process
func Harness_C04_AfterOtherCalls() {
	circ := vChoice(2) == 1
	ds := vChoice(2) == 1
	if !circ && !ds {
		vAssume(false) // no rotation / strand partner to compare with
	}
	x := vBytes(2, "ACGT")
	n := 2 + vChoice(2)
	s := vBytes(n, "ACGT")
	Hash(x, "DNA", circ, ds)
	var e0 error
	if vChoice(2) == 1 {
		_, e0 = Hash(s, "dna", circ, ds) // refused: unknown type
	} else {
		_, e0 = Hash(s, "PROTEIN", circ, true) // refused: double-stranded protein
	}
	vAssert(e0 != nil, "refused-call-is-refused")
	h1, e1 := Hash(s, "DNA", circ, ds)
	partner := c04RC(s, c04CompTable())
	tag := "strand-invariant"
	if circ {
		partner = s[1:] + s[:1]
		tag = "rotation-invariant"
	}
	h2, e2 := Hash(partner, "DNA", circ, ds)
	vAssert(e1 == nil && e2 == nil, "accepted")
	vAssert(vEqStr(h1, h2), tag)
}

// longer circular sequences over the four bases (failure-function chains need length)
func Harness_C04_RotationACGT() {
	n := 5 + vChoice(vTier(1, 3))
	k := vChoice(n)
	ds := vChoice(2) == 1
	s := vBytes(n, "ACGT")
	h1, e1 := Hash(s, "DNA", true, ds)
	h2, e2 := Hash(s[k:]+s[:k], "DNA", true, ds)
	vAssert(e1 == nil && e2 == nil, "accepted")
	vAssert(vEqStr(h1, h2), "rotation-invariant")
}

func Harness_C04_Strand() {
	n := 1 + vChoice(vTier(3, 4))
	ti := vChoice(2)
	circ := vChoice(2) == 1
	dom := c04Iupac
	if ti == 1 {
		dom = c04IupacU
	}
	s := vBytes(n, dom)
	rc := c04RC(s, c04CompTable())
	h1, e1 := Hash(s, c04Type(ti), circ, true)
	h2, e2 := Hash(rc, c04Type(ti), circ, true)
	vAssert(e1 == nil && e2 == nil, "accepted")
	vAssert(vEqStr(h1, h2), "strand-invariant")
	vCover("C04 sequence differs from its reverse complement", vNot(vEqStr(s, rc)))
}

func Harness_C04_Case() {
	n := 1 + vChoice(vTier(3, 4))
	ti := vChoice(3)
	circ := vChoice(2) == 1
	ds := vChoice(2) == 1
	if ti == 2 && ds {
		vAssume(false)
	}
	dom := c04Nuc
	if ti == 2 {
		dom = c04Prot
	}
	s := vBytes(n, dom)
	// t: the same letters, each in an independently chosen case
	flip := vBytes(n, "\x00\x20")
	tb := make([]byte, n)
	for i := 0; i < n; i++ {
		tb[i] = vIteByte(s[i] == '*', s[i], (s[i]&0xDF)|flip[i])
	}
	t := string(tb)
	h1, e1 := Hash(s, c04Type(ti), circ, ds)
	h2, e2 := Hash(t, c04Type(ti), circ, ds)
	vAssert(e1 == nil && e2 == nil, "accepted")
	vAssert(vEqStr(h1, h2), "case-invariant")
	vCover("C04 case actually differs", vNot(vEqStr(s, t)))
}

func Harness_C04_RnaDna() {
	n := 1 + vChoice(vTier(4, 5))
	circ := vChoice(2) == 1
	ds := vChoice(2) == 1
	s := vBytes(n, c04Nuc)
	db := make([]byte, n)
	for i := 0; i < n; i++ {
		db[i] = vIteByte(s[i] == 'U', 'T', vIteByte(s[i] == 'u', 't', s[i]))
	}
	d := string(db)
	h1, e1 := Hash(s, "RNA", circ, ds)
	h2, e2 := Hash(d, "DNA", circ, ds)
	vAssert(e1 == nil && e2 == nil, "accepted")
	vAssert(len(h1) == len(h2) && len(h1) == 71, "length-71")
	vAssert(vEqStr(h1[:3], h2[:3]) && vEqStr(h1[4:], h2[4:]), "rna-dna-differ-only-in-type-letter")
	vAssert(h1[3] == 'R' && h2[3] == 'D', "type-letters")
	vCover("C04 RNA spelling contains U", vNot(vEqStr(s, d)))
}

// long circular molecules (size thresholds in the rotation search)
func Harness_C04_LongRotation() {
	sizes := []int{33001}
	if vTier(0, 1) == 1 {
		sizes = []int{4099, 33001, 65537, 70001}
	}
	n := sizes[vChoice(len(sizes))]
	ds := vChoice(2) == 1
	body := make([]byte, n)
	for i := range body {
		body[i] = "CGTGTC"[i%6]
	}
	body[n/5] = 'A'
	s := string(body[:7]) + vBytes(2, "CGTcgt") + string(body[9:])
	k := []int{1, n / 2, n - 3}[vChoice(3)]
	h1, e1 := Hash(s, "DNA", true, ds)
	h2, e2 := Hash(s[k:]+s[:k], "DNA", true, ds)
	vAssert(e1 == nil && e2 == nil, "accepted")
	vAssert(vEqStr(h1, h2), "rotation-invariant")
}
func Selftest_C04_Pinned() {
	// the repository's own pinned digests cannot be reproduced by the engine (blake3 is
	// uninterpreted there); the selftest compares everything but the digest
	for _, c := range []struct {
		s, t   string
		ci, ds bool
	}{{"TTAGCCCAT", "DNA", true, true}, {"TTAGCCCAT", "DNA", true, false}, {"TTAGCCCAT", "DNA", false, true}, {"TTAGCCCAT", "DNA", false, false},
		{"TTAGCCCAT", "RNA", false, true}, {"MGC*", "PROTEIN", false, false}, {"MGC*", "PROTEIN", false, true}, {"XTAG", "DNA", false, false}, {"ATG", "dna", false, false}} {
		h, err := Hash(c.s, c.t, c.ci, c.ds)
		if err != nil {
			vOut("error: " + err.Error())
		} else {
			vOut(h[:7])
		}
	}
	vOut(RotateSequence("TTAGCCCAT"))
}
