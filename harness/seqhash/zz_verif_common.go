//go:build verif_sym || verif_native

package seqhash

// helpers shared by the C04 / C05 / C12 harnesses

func c04CompTable() string {
	t := make([]byte, 256)
	pairs := "ATTACGGCRYYRSSWWKMMKBVVBDHHDNNUA"
	for i := 0; i < len(pairs); i += 2 {
		t[pairs[i]] = pairs[i+1]
		t[pairs[i]+32] = pairs[i+1] + 32
	}
	return string(t)
}

func c04RC(s string, tab string) string {
	n := len(s)
	out := make([]byte, n)
	for i := 0; i < n; i++ {
		out[n-1-i] = vTable(tab, s[i])
	}
	return string(out)
}

func c04Type(i int) string { return []string{"DNA", "RNA", "PROTEIN"}[i] }

