//go:build verif_sym || verif_native

package seqhash

// C05: seqhash separates distinct molecules and follows the published v1 form.
//
// verif:bound C05 form clause: sequences over the 15 IUPAC codes in both cases (nucleic acids) / the protein alphabet, length 1..3 (quick) / 1..4 (thorough), all flag combinations; brute-force canonical form as a term
// verif:bound C05 long-sequence clause: linear single-stranded DNA of 65536 (quick) / 65535..131073 (thorough) letters, two symbolic letters near the end: digest of the whole sequence; separation of two such molecules
// verif:bound C05 separation clause: two inputs of equal length 1..3 (quick) / 1..4 (thorough) over ACGT, and 1..2 / 1..3 over the 15 IUPAC codes, same flags; different flags and different lengths give different tags / digests
// verif:bound C05 rejection clause: type strings of 3..7 symbolic letters; one symbolic byte outside the alphabet at every position of a sequence of length 1..3 (quick) / 1..4 (thorough); double-stranded proteins
// verif:assume C05 BLAKE3 is an uninterpreted function per input length and assumed collision-free: digests are equal iff the hashed strings are equal, digests of strings of different length differ. That the digest IS BLAKE3-256 is outside the claim (checked natively on pinned vectors only)
// verif:bound C05 reject-after-accept clause: 1..2 symbolic protein letters hashed as PROTEIN, then offered as DNA / RNA in the same process: rejected iff a letter lies outside the nucleic-acid alphabet
// verif:bound C05 outside the claim: U and Z under DNA in the separation clause (reverse complement is not an involution there)

import (
	"encoding/hex"

	"lukechampine.com/blake3"
)

const c05Acgt = "ACGT"
const c05Iupac = "ACGTRYSWKMBDHVN"
const c05IupacBoth = "ACGTRYSWKMBDHVNacgtryswkmbdhvn"
const c05ProtBoth = "ACDEFGHIKLMNPQRSTVWYUO*BXZacdefghiklmnpqrstvwyuobxz"

func c05Upper(s string) string {
	b := make([]byte, len(s))
	for i := 0; i < len(s); i++ {
		b[i] = vIteByte(vAnd(s[i] >= 'a', s[i] <= 'z'), s[i]-32, s[i])
	}
	return string(b)
}

func c05Digest(s string) string {
	sum := blake3.Sum256([]byte(s))
	return hex.EncodeToString(sum[:])
}

// candidates: all rotations (if circular) of the upper-cased sequence and (if double
// stranded) of its reverse complement
func c05Candidates(u string, circ, ds bool) []string {
	var out []string
	strands := []string{u}
	if ds {
		strands = append(strands, c04RC(u, c04CompTable()))
	}
	for _, st := range strands {
		if circ {
			for k := 0; k < len(st); k++ {
				out = append(out, st[k:]+st[:k])
			}
		} else {
			out = append(out, st)
		}
	}
	return out
}

func c05Min(cands []string) string {
	best := cands[0]
	for _, c := range cands[1:] {
		best = vIteStr(vLexLT(c, best), c, best)
	}
	return best
}

func Harness_C05_Form() {
	n := 1 + vChoice(vTier(3, 4))
	ti := vChoice(3)
	circ := vChoice(2) == 1
	ds := vChoice(2) == 1
	if ti == 2 && ds {
		vAssume(false)
	}
	dom := c05IupacBoth
	if ti == 2 {
		dom = c05ProtBoth
	}
	s := vBytes(n, dom)
	h, err := Hash(s, c04Type(ti), circ, ds)
	vAssert(err == nil, "accepted")
	vAssert(len(h) == 71, "length-71")
	tag := "v1_" + string("DRP"[ti])
	if circ {
		tag += "C"
	} else {
		tag += "L"
	}
	if ds {
		tag += "D"
	} else {
		tag += "S"
	}
	tag += "_"
	vAssert(vEqStr(h[:7], tag), "v1-tag")
	hexOK := vAnd()
	for i := 7; i < len(h); i++ {
		c := h[i]
		hexOK = vAnd(hexOK, vOr(vAnd(c >= '0', c <= '9'), vAnd(c >= 'a', c <= 'f')))
	}
	vAssert(hexOK, "digest-is-lower-hex")
	canon := c05Min(c05Candidates(c05Upper(s), circ, ds))
	vAssert(vEqStr(h[7:], c05Digest(canon)), "digest-of-least-representative")
}

func c05RotEq(a, b string, circ, ds bool) bool {
	r := vOr()
	for _, c := range c05Candidates(b, circ, ds) {
		r = vOr(r, vEqStr(a, c))
	}
	return r
}

func c05Separation(n int, dom string) {
	circ := vChoice(2) == 1
	ds := vChoice(2) == 1
	a := vBytes(n, dom)
	b := vBytes(n, dom)
	ha, ea := Hash(a, "DNA", circ, ds)
	hb, eb := Hash(b, "DNA", circ, ds)
	vAssert(ea == nil && eb == nil, "accepted")
	same := c05RotEq(a, b, circ, ds)
	vAssert(vIff(vEqStr(ha, hb), same), "equal-hash-iff-same-molecule")
	vCover("C05 two different molecules", vNot(same))
	vCover("C05 same molecule written differently", vAnd(same, vNot(vEqStr(a, b))))
}

func Harness_C05_SeparationACGT() {
	n := 1 + vChoice(vTier(3, 4))
	c05Separation(n, c05Acgt)
}

func Harness_C05_SeparationIUPAC() {
	n := 1 + vChoice(vTier(2, 3))
	c05Separation(n, c05Iupac)
}

// different declared molecules never share a seqhash; different lengths never share one
func Harness_C05_SeparationFlags() {
	n := 1 + vChoice(3)
	m := 1 + vChoice(3)
	t1, t2 := vChoice(3), vChoice(3)
	c1, c2 := vChoice(2) == 1, vChoice(2) == 1
	d1, d2 := vChoice(2) == 1, vChoice(2) == 1
	if (t1 == 2 && d1) || (t2 == 2 && d2) {
		vAssume(false)
	}
	if t1 == t2 && c1 == c2 && d1 == d2 && n == m {
		vAssume(false)
	}
	a := vBytes(n, c05Acgt)
	b := vBytes(m, c05Acgt)
	ha, ea := Hash(a, c04Type(t1), c1, d1)
	hb, eb := Hash(b, c04Type(t2), c2, d2)
	vAssert(ea == nil && eb == nil, "accepted")
	vAssert(vNot(vEqStr(ha, hb)), "different-declaration-or-length-different-hash")
}

func Harness_C05_RejectType() {
	n := 3 + vChoice(5)
	t := vBytes(n, "ADENOPRTadenoprt ")
	vAssume(vNot(vOr(vEqStr(t, "DNA"), vEqStr(t, "RNA"), vEqStr(t, "PROTEIN"))))
	h, err := Hash("ATG", t, vChoice(2) == 1, vChoice(2) == 1)
	vAssert(err != nil, "unknown-type-rejected")
	vAssert(h == "", "no-hash-on-error")
	vCover("C05 lower-case type name", vEqStr(t, "dna"))
}

func c05Outside(alphabet string) string {
	var out []byte
	for c := 0; c < 128; c++ {
		in := false
		for i := 0; i < len(alphabet); i++ {
			if alphabet[i] == byte(c) || alphabet[i]+32 == byte(c) && alphabet[i] >= 'A' && alphabet[i] <= 'Z' {
				in = true
			}
		}
		if !in {
			out = append(out, byte(c))
		}
	}
	return string(out)
}

func Harness_C05_RejectLetter() {
	n := 1 + vChoice(vTier(3, 4))
	pos := vChoice(n)
	ti := vChoice(3)
	alpha := "ATUGCYRSWKMBDHVNZ"
	if ti == 2 {
		alpha = "ACDEFGHIKLMNPQRSTVWYUO*BXZ"
	}
	good := vBytes(n, alpha)
	bad := vByte(c05Outside(alpha))
	s := good[:pos] + string([]byte{bad}) + good[pos+1:]
	h, err := Hash(s, c04Type(ti), vChoice(2) == 1, false)
	vAssert(err != nil, "foreign-letter-rejected")
	vAssert(h == "", "no-hash-on-error")
}

// a sequence accepted under one declared type is still checked against the alphabet of another
func Harness_C05_RejectAfterAccept() {
	n := 1 + vChoice(2)
	s := vBytes(n, "ACDEFGHIKLMNPQRSTVWYUO*BXZ")
	circ := vChoice(2) == 1
	_, e1 := Hash(s, "PROTEIN", circ, false)
	vAssert(e1 == nil, "accepted")
	ti := vChoice(2)
	nuc := "ATUGCYRSWKMBDHVNZ"
	allIn := vAnd()
	for i := 0; i < n; i++ {
		in := vOr()
		for j := 0; j < len(nuc); j++ {
			in = vOr(in, s[i] == nuc[j])
		}
		allIn = vAnd(allIn, in)
	}
	h, e2 := Hash(s, c04Type(ti), circ, false)
	vAssert(vIff(e2 != nil, vNot(allIn)), "foreign-letter-rejected-after-acceptance-under-another-type")
	if e2 != nil {
		vAssert(h == "", "no-hash-on-error")
	}
	vCover("C05 a protein-only letter offered as DNA", vNot(allIn))
}

func Harness_C05_RejectDoubleStrandedProtein() {
	n := 1 + vChoice(3)
	s := vBytes(n, c05ProtBoth)
	h, err := Hash(s, "PROTEIN", vChoice(2) == 1, true)
	vAssert(err != nil, "double-stranded-protein-rejected")
	vAssert(h == "", "no-hash-on-error")
}

// long sequences: the digest is still the digest of the whole canonical representative
func Harness_C05_LongForm() {
	sizes := []int{65536}
	if vTier(0, 1) == 1 {
		sizes = []int{65535, 65536, 65537, 131073}
	}
	n := sizes[vChoice(len(sizes))]
	body := make([]byte, n)
	for i := range body {
		body[i] = "ACGGTC"[i%6]
	}
	s := string(body[:n-3]) + vBytes(2, "ACGTacgt") + "T"
	h, err := Hash(s, "DNA", false, false)
	vAssert(err == nil, "accepted")
	vAssert(len(h) == 71, "length-71")
	vAssert(vEqStr(h[7:], c05Digest(c05Upper(s))), "digest-of-least-representative")
	// two molecules that differ in one of the last letters are separated
	t := string(body[:n-3]) + vBytes(2, "ACGT") + "T"
	h2, _ := Hash(t, "DNA", false, false)
	vAssert(vIff(vEqStr(h, h2), vEqStr(c05Upper(s), t)), "equal-hash-iff-same-molecule")
}
func Selftest_C05_Pinned() {
	// natively these are the real BLAKE3 digests pinned by the repository's tests; the
	// engine prints the same lines up to the digest (uninterpreted there)
	for _, c := range []struct {
		s, t   string
		ci, ds bool
	}{{"TTAGCCCAT", "DNA", true, true}, {"TTAGCCCAT", "DNA", false, false}, {"MGC*", "PROTEIN", false, false}} {
		h, _ := Hash(c.s, c.t, c.ci, c.ds)
		vOut(h[:7])
		vOut(c05Min(c05Candidates(c.s, c.ci, c.ds)))
	}
}
