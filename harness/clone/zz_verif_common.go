//go:build verif_sym || verif_native

package clone

func cRC(s string) string {
	tab := make([]byte, 256)
	tab['A'], tab['T'], tab['C'], tab['G'] = 'T', 'A', 'G', 'C'
	t := string(tab)
	n := len(s)
	b := make([]byte, n)
	for i := 0; i < n; i++ {
		b[n-1-i] = vTable(t, s[i])
	}
	return string(b)
}

// cSameMolecule: a and b are the same circular double-stranded molecule
// (equal up to rotation and strand)
func cSameMolecule(a, b string) bool {
	if len(a) != len(b) {
		return false
	}
	r := vOr()
	rb := cRC(b)
	for k := 0; k < len(b) || k == 0; k++ {
		r = vOr(r, vEqStr(a, b[k:]+b[:k]), vEqStr(a, rb[k:]+rb[:k]))
	}
	return r
}
