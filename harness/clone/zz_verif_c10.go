//go:build verif_sym || verif_native

package clone

// C10: Type IIS digestion cuts at enzyme geometry, independent of plasmid origin.
//
// verif:bound C10 enzymes BsaI, BbsI, BtgZI and a custom non-palindromic 3-letter site (GAC, skip 1, overhang 2); 0..2 (quick) / 0..3 (thorough) recognition sites in either orientation; gaps between consecutive cuts from {minimum allowed, minimum+1 / +3}; linear parts with 0..(skip+overhang+2) bases before the first / after the last site; circular parts at EVERY rotation offset of the stored sequence
// verif:bound C10 filler bases symbolic over {A,T,a,t} (no accidental site can arise; site letters upper or lower case): one path decides a layout for every filler
// verif:assume C10 precondition (the property's restriction made precise): recognition-site occurrences and overhang windows are pairwise disjoint and consecutive cuts are at least two overhang lengths apart (cyclically for circular parts)
// verif:bound C10 two-digest clause: two parts (linear or circular; the first with 2 or 4 sites (equal gaps: two released fragments may have the same text), the second with 0..1 (quick) / 0..2 (thorough) sites, orientations symbolic choices, fixed gaps, symbolic filler) digested one after the other with the same enzyme: each answer follows its own part's geometry
// verif:bound C10 outside the claim: more than 3 sites, sequences longer than ~80 bases, filler containing G/C (accidental sites), non-directional digestion

import "regexp"

type c10Enz struct {
	site     string
	skip, oh int
	name     string
}

var c10Enzymes = []c10Enz{{"GGTCTC", 1, 4, "BsaI"}, {"GAC", 1, 2, ""}, {"GAAGAC", 2, 4, "BbsI"}, {"GCGATG", 10, 4, "BtgZI"}}

func c10RCsite(s string) string {
	b := make([]byte, len(s))
	for i := 0; i < len(s); i++ {
		var c byte
		switch s[i] {
		case 'A':
			c = 'T'
		case 'T':
			c = 'A'
		case 'G':
			c = 'C'
		case 'C':
			c = 'G'
		}
		b[len(s)-1-i] = c
	}
	return string(b)
}

func c10Lower(s string) string {
	b := []byte(s)
	for i := range b {
		b[i] += 32
	}
	return string(b)
}

func c10Upper(s string) string {
	b := make([]byte, len(s))
	for i := 0; i < len(s); i++ {
		b[i] = vIteByte(s[i] >= 'a', s[i]-32, s[i])
	}
	return string(b)
}

type c10Site struct {
	pos int // start of the site occurrence in the unrotated sequence
	fwd bool
}

// c10Layout builds a sequence: lead + site + gap + site + ... + trail.
func c10Layout(e c10Enz, circular bool) (seq string, sites []c10Site) {
	n := vChoice(vTier(3, 4))
	if circular && vTier(0, 1) == 1 && e.skip >= 10 {
		n = vChoice(3)
	}
	minGap := 2*e.skip + 2*e.oh // cuts of a facing pair at least two overhangs apart, windows disjoint
	lead := 0
	trail := 0
	ends := []int{0, 1, e.skip + e.oh - 1, e.skip + e.oh, e.skip + e.oh + 2}
	if circular {
		// the wrap-around gap obeys the same restriction
		lead = vChoice(2)
		trail = minGap + vChoice(2) - lead
		if trail < 0 {
			trail = 0
		}
		if n == 0 {
			trail = 6
		}
	} else {
		lead = ends[vChoice(len(ends))]
		trail = ends[vChoice(len(ends))]
	}
	seq = vBytes(lead, "ATat")
	for i := 0; i < n; i++ {
		fwd := vChoice(2) == 1
		s := e.site
		if !fwd {
			s = c10RCsite(e.site)
		}
		if vChoice(2) == 1 {
			s = c10Lower(s)
		}
		sites = append(sites, c10Site{len(seq), fwd})
		seq += s
		if i < n-1 {
			seq += vBytes(minGap+[]int{0, 1, 3}[vChoice(vTier(2, 3))], "ATat")
		}
	}
	seq += vBytes(trail, "ATat")
	return
}

// c10FixedLayout: n sites in symbolic orientation, fixed gaps (the reduced layout of the two-digest clause).
func c10FixedLayout(e c10Enz, circular bool, n int) (seq string, sites []c10Site) {
	minGap := 2*e.skip + 2*e.oh
	lead, trail := e.skip+e.oh, e.skip+e.oh
	if circular {
		lead, trail = 1, minGap
		if n == 0 {
			trail = 6
		}
	}
	seq = vBytes(lead, "ATat")
	for i := 0; i < n; i++ {
		fwd := vChoice(2) == 1
		s := e.site
		if !fwd {
			s = c10RCsite(e.site)
		}
		sites = append(sites, c10Site{len(seq), fwd})
		seq += s
		if i < n-1 {
			seq += vBytes(minGap, "ATat")
		}
	}
	seq += vBytes(trail, "ATat")
	return
}

// c10Oracle computes the expected fragments from the geometry alone.
// up is the upper-cased unrotated sequence (bytes may be symbolic).
func c10Oracle(up string, sites []c10Site, e c10Enz, circular bool) []Fragment {
	L := len(up)
	at := func(i int) string { i = ((i % L) + L) % L; return up[i : i+1] }
	cut := func(s c10Site) int {
		if s.fwd {
			return s.pos + len(e.site) + e.skip // overhang = [cut, cut+oh)
		}
		return s.pos - e.skip // overhang = [cut-oh, cut)
	}
	var out []Fragment
	for i, s := range sites {
		if !s.fwd {
			continue
		}
		fcut := cut(s)
		best, bestPos := -1, 0
		for j, t := range sites {
			if j == i && len(sites) > 1 {
				continue
			}
			c := cut(t)
			for circular && c <= fcut {
				c += L
			}
			if c <= fcut {
				continue
			}
			if best == -1 || c < bestPos {
				best, bestPos = j, c
			}
		}
		if best == -1 || sites[best].fwd {
			continue
		}
		if !circular && (bestPos > L || fcut+e.oh > L || bestPos-e.oh < 0) {
			continue
		}
		if bestPos-fcut < 2*e.oh {
			continue
		}
		f := ""
		for k := fcut; k < bestPos; k++ {
			f += at(k)
		}
		out = append(out, Fragment{f[e.oh : len(f)-e.oh], f[:e.oh], f[len(f)-e.oh:]})
	}
	return out
}

func c10FragEq(a, b Fragment) bool {
	return vAnd(vEqStr(a.Sequence, b.Sequence), vEqStr(a.ForwardOverhang, b.ForwardOverhang), vEqStr(a.ReverseOverhang, b.ReverseOverhang))
}

// multiset equality of two fragment lists (<= 4 elements): some permutation matches
func c10MultisetEq(want, got []Fragment) bool {
	if len(want) != len(got) {
		return false
	}
	n := len(want)
	if n == 0 {
		return true
	}
	idx := make([]int, n)
	for i := range idx {
		idx[i] = i
	}
	res := vOr()
	var perm func(k int)
	perm = func(k int) {
		if k == n {
			m := vAnd()
			for i := 0; i < n; i++ {
				m = vAnd(m, c10FragEq(want[i], got[idx[i]]))
			}
			res = vOr(res, m)
			return
		}
		for i := k; i < n; i++ {
			idx[k], idx[i] = idx[i], idx[k]
			perm(k + 1)
			idx[k], idx[i] = idx[i], idx[k]
		}
	}
	perm(0)
	return res
}

func c10Enzyme(e c10Enz) Enzyme {
	return Enzyme{"custom", regexp.MustCompile(e.site), regexp.MustCompile(c10RCsite(e.site)), e.skip, e.oh, e.site}
}

func c10Cut(part Part, e c10Enz) ([]Fragment, bool) {
	var got []Fragment
	panicked := vPanics(func() {
		if e.name != "" {
			var err error
			got, err = CutWithEnzymeByName(part, true, e.name)
			if err != nil {
				panic("enzyme not found")
			}
		} else {
			got = CutWithEnzyme(part, true, c10Enzyme(e))
		}
	})
	return got, panicked
}

func Harness_C10_Linear() {
	e := c10Enzymes[vChoice(vTier(3, 4))]
	seq, sites := c10Layout(e, false)
	got, panicked := c10Cut(Part{seq, false}, e)
	vAssert(!panicked, "linear-digestion-does-not-panic")
	if panicked {
		return
	}
	want := c10Oracle(c10Upper(seq), sites, e, false)
	vAssert(len(got) == len(want), "linear-fragment-count")
	vAssert(c10MultisetEq(want, got), "linear-fragments-follow-enzyme-geometry")
	vCover("C10 a linear part with a fragment", len(want) > 0)
}

func Harness_C10_Circular() {
	e := c10Enzymes[vChoice(vTier(2, 4))]
	seq, sites := c10Layout(e, true)
	L := len(seq)
	k := vChoice(L)
	rot := seq[k:] + seq[:k]
	// a forward site that starts in the last (site length + skip) positions before the stored origin
	got, panicked := c10Cut(Part{rot, true}, e)
	vAssert(!panicked, "circular-digestion-does-not-panic")
	if panicked {
		return
	}
	want := c10Oracle(c10Upper(seq), sites, e, true)
	vAssert(len(got) == len(want), "circular-fragment-count-independent-of-origin")
	vAssert(c10MultisetEq(want, got), "circular-fragments-independent-of-origin")
	vCover("C10 a rotated plasmid with a fragment", k > 0 && len(want) == 1)
}

// two digests in one process: the second answer depends on the second part only
func Harness_C10_TwoDigests() {
	e := c10Enzymes[vChoice(vTier(2, 4))]
	circ1, circ2 := vChoice(2) == 1, vChoice(2) == 1
	seq1, sites1 := c10FixedLayout(e, circ1, 2+2*vChoice(2)) // 4 sites: two released fragments may be identical in text
	seq2, sites2 := c10FixedLayout(e, circ2, vChoice(vTier(2, 3)))
	got1, p1 := c10Cut(Part{seq1, circ1}, e)
	got2, p2 := c10Cut(Part{seq2, circ2}, e)
	vAssert(!p1 && !p2, "digestion-does-not-panic")
	if p1 || p2 {
		return
	}
	want1 := c10Oracle(c10Upper(seq1), sites1, e, circ1)
	want2 := c10Oracle(c10Upper(seq2), sites2, e, circ2)
	vAssert(len(got1) == len(want1) && c10MultisetEq(want1, got1), "first-digest-follows-enzyme-geometry")
	vAssert(len(got2) == len(want2), "second-digest-fragment-count")
	vAssert(c10MultisetEq(want2, got2), "second-digest-follows-enzyme-geometry")
	vCover("C10 a productive digest followed by an empty one", len(want1) > 0 && len(want2) == 0)
}

func Selftest_C10_Vectors() {
	show := func(fs []Fragment) {
		s := ""
		for _, f := range fs {
			s += f.ForwardOverhang + "|" + f.Sequence + "|" + f.ReverseOverhang + " ; "
		}
		vOut(s)
	}
	pOpen := "AAAGGTCTCAATGCTTTTTTTTTTTTTTTTTTTGGGGAGACCTTT"
	f, _ := CutWithEnzymeByName(Part{pOpen, false}, true, "BsaI")
	show(f)
	f, _ = CutWithEnzymeByName(Part{pOpen, true}, true, "BsaI")
	show(f)
	f, _ = CutWithEnzymeByName(Part{"aaaggtctcaatgcttttttttttttttttttttggggagaccttt", true}, true, "BsaI")
	show(f)
	f, _ = CutWithEnzymeByName(Part{pOpen[20:] + pOpen[:20], true}, true, "BsaI")
	show(f)
	f, _ = CutWithEnzymeByName(Part{"ATATATGAAGACATAATGTTTTTTTTTTGGGGTAGTCTTCATAT", false}, true, "BbsI")
	show(f)
	_, err := CutWithEnzymeByName(Part{pOpen, false}, true, "EcoFake")
	vOut(err.Error())
	show(CutWithEnzyme(Part{"TTGACTAATTTTTTTTAATTGTCTT", false}, true, c10Enzyme(c10Enzymes[1])))
}
