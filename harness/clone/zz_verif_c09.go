//go:build verif_sym || verif_native

package clone

// C09: GoldenGate returns exactly the plasmids the overhangs allow.
//
// verif:bound C09 designed assemblies with 1..2 (quick) / 1..3 (thorough) junctions, 1..2 alternative fragments per slot (at most 4 fragments), every fragment supplied in either orientation, two input orders, an optional dead-end decoy; fragment interiors one symbolic base (ACGT) plus a fixed tag base each; junction labels distinct, non-palindromic and free of reverse-complement pairs
// verif:bound C09 schedules at synchronisation-point granularity: designed-ring harness default run-to-block schedule (quick) plus LIFO mirror and 1 deviation for pools of at most 2 fragments (thorough); scheduling-independence harness on concrete pools of 1..3 fragments: default, LIFO mirror and all schedules deviating at <= 2 (quick) / 3 (thorough) of the first 24 choice points; two-ring pools: deviations at <= 2 points, 2 (quick) / 2..3 (thorough) alternatives
// verif:bound C09 termination: pools of 3 fragments whose overhangs close a cycle that excludes the seed (default schedule); call depth / goroutine count as the termination obligation
// verif:bound C09 two-simulations clause: a two-fragment ring ligated, then the same pool or a one-fragment self-closing pool ligated in the same process (symbolic interiors): each simulation returns its own ring
// verif:bound C09 library clause: a concrete pool of 5 (quick) / 6 (thorough) junctions with 3 alternatives per slot (243 / 729 rings, 1215 / 4374 construct deliveries), mixed orientations; a closed computation executed by the engine (termination, count and distinctness of the rings; no symbolic input)
// verif:assume C09 seqhash.Hash is executed from SSA with BLAKE3 as an assumed collision-free uninterpreted function (see C04/C05)
// verif:bound C09 outside the claim: GOMAXPROCS, the Go scheduler, the race detector and pre-emption between synchronisation points; more than 3 junctions; the full GoldenGate pipeline (CutWithEnzymeByName + CircularLigate) is exercised for 1..2 parts with BsaI, linear or circular carriers at 4 rotations (quick) / every rotation (thorough)

var c09Junctions = []string{"AATG", "GCTT", "CGAA", "TACC", "GGTA"}

func c09Design() (frags []Fragment, rings []string) {
	k := 1 + vChoice(vTier(2, 3))
	alts := make([][]string, k)
	total := 0
	for i := 0; i < k; i++ {
		na := 1 + vChoice(2)
		if total+na+(k-1-i) > 4 {
			na = 1
		}
		total += na
		for a := 0; a < na; a++ {
			interior := vBytes(1, "ACGT") + string("ACGT"[(i+a)%4])
			for _, prev := range alts[i] {
				vAssume(vNot(vEqStr(prev, interior)))
			}
			alts[i] = append(alts[i], interior)
			f := Fragment{interior, c09Junctions[i], c09Junctions[(i+1)%k]}
			if vChoice(2) == 1 { // supplied in the opposite orientation
				f = Fragment{cRC(interior), cRC(c09Junctions[(i+1)%k]), cRC(c09Junctions[i])}
			}
			frags = append(frags, f)
		}
	}
	if vChoice(2) == 1 { // dead-end decoy
		frags = append(frags, Fragment{vBytes(1, "ACGT") + "T", c09Junctions[0], c09Junctions[4]})
	}
	if vChoice(2) == 1 { // the other input order
		for i, j := 0, len(frags)-1; i < j; i, j = i+1, j-1 {
			frags[i], frags[j] = frags[j], frags[i]
		}
	}
	var rec func(i int, acc string)
	rec = func(i int, acc string) {
		if i == k {
			rings = append(rings, acc)
			return
		}
		for _, a := range alts[i] {
			rec(i+1, acc+c09Junctions[i]+a)
		}
	}
	rec(0, "")
	return
}

func Harness_C09_Rings() {
	frags, rings := c09Design()
	if len(frags) <= 2 {
		vSchedules(vTier(0, 1)) // thorough: LIFO mirror and one deviation for pools of up to 2 fragments
	}
	vTerminates(3000000)
	var got []Part
	panicked := vPanics(func() { got = CircularLigate(frags) })
	vAssert(!panicked, "ligation-does-not-panic")
	if panicked {
		return
	}
	for _, g := range got {
		vAssert(g.Circular, "constructs-are-circular")
		hit := vOr()
		for _, r := range rings {
			hit = vOr(hit, cSameMolecule(g.Sequence, r))
		}
		vAssert(hit, "no-spurious-construct")
	}
	for _, r := range rings {
		hit := vOr()
		for _, g := range got {
			hit = vOr(hit, cSameMolecule(g.Sequence, r))
		}
		vAssert(hit, "no-missing-ring")
	}
	for i := 0; i < len(got); i++ {
		for j := i + 1; j < len(got); j++ {
			vAssert(vNot(cSameMolecule(got[i].Sequence, got[j].Sequence)), "no-two-constructs-are-the-same-molecule")
		}
	}
	vCover("C09 two rings", len(rings) >= 2)
}

// scheduling independence on concrete pools: every explored interleaving gives the same set
func Harness_C09_Schedules() {
	vSchedules(vTier(2, 3))
	k := 1 + vChoice(2)
	var frags []Fragment
	var ring string
	for i := 0; i < k; i++ {
		interior := []string{"AC", "GG"}[i]
		ring += c09Junctions[i] + interior
		f := Fragment{interior, c09Junctions[i], c09Junctions[(i+1)%k]}
		if vChoice(2) == 1 {
			f = Fragment{cRC(interior), cRC(c09Junctions[(i+1)%k]), cRC(c09Junctions[i])}
		}
		frags = append(frags, f)
	}
	if vChoice(2) == 1 {
		frags = append(frags, Fragment{"TT", c09Junctions[0], c09Junctions[4]})
	}
	vTerminates(3000000)
	got := CircularLigate(frags)
	vAssert(len(got) == 1, "one-construct-whatever-the-schedule")
	if len(got) == 1 {
		vAssert(cSameMolecule(got[0].Sequence, ring), "the-designed-ring-whatever-the-schedule")
	}
	vCover("C09 two fragments and a decoy", len(frags) == 3)
}

// the whole GoldenGate pipeline: parts carrying BsaI sites are cut and ligated
func Harness_C09_GoldenGate() {
	k := 1 + vChoice(2)
	var parts []Part
	ring := ""
	for i := 0; i < k; i++ {
		interior := vBytes(2, "AT") + "A"
		j0, j1 := c09Junctions[i], c09Junctions[(i+1)%k]
		ring += j0 + interior
		ins := "TT" + "GGTCTC" + "A" + j0 + interior + j1 + "T" + "GAGACC" + "AA"
		if vChoice(2) == 1 {
			ins = cRC(ins)
		}
		if vChoice(2) == 1 {
			// circular carrier at some rotation
			r := 0
			if vTier(0, 1) == 1 {
				r = vChoice(len(ins))
			} else {
				r = []int{0, 4, 9, len(ins) - 3}[vChoice(4)]
			}
			parts = append(parts, Part{ins[r:] + ins[:r], true})
		} else {
			parts = append(parts, Part{ins, false})
		}
	}
	vTerminates(3000000)
	got, err := GoldenGate(parts, "BsaI")
	vAssert(err == nil, "golden-gate-accepts-bsai")
	// a circular carrier also yields its backbone fragment, which cannot close a ring here
	found := vOr()
	for _, g := range got {
		found = vOr(found, cSameMolecule(g.Sequence, ring))
	}
	vAssert(found, "golden-gate-returns-the-designed-plasmid")
	for i := 0; i < len(got); i++ {
		for j := i + 1; j < len(got); j++ {
			vAssert(vNot(cSameMolecule(got[i].Sequence, got[j].Sequence)), "no-two-constructs-are-the-same-molecule")
		}
	}
	_, err2 := GoldenGate(parts, "NoSuchEnzyme")
	vAssert(err2 != nil, "unknown-enzyme-is-an-error")
}

// two (quick) / up to four (thorough) distinct rings on concrete pools: whatever the arrival order of
// the duplicates, every ring is returned exactly once
func Harness_C09_TwoRingsSchedules() {
	k := 1 + vChoice(2)
	na := 2
	if vTier(0, 1) == 1 {
		na = 2 + vChoice(2)
	}
	vSchedules(2) // thorough adds a third alternative, not a third deviation
	var frags []Fragment
	var rings []string
	interiors := []string{"AC", "GG", "TA", "CA"}
	for a := 0; a < na; a++ {
		frags = append(frags, Fragment{interiors[a], c09Junctions[0], c09Junctions[1%k]})
	}
	if k == 2 {
		frags = append(frags, Fragment{"TT", c09Junctions[1], c09Junctions[0]})
	}
	for a := 0; a < na; a++ {
		r := c09Junctions[0] + interiors[a]
		if k == 2 {
			r += c09Junctions[1] + "TT"
		}
		rings = append(rings, r)
	}
	if vChoice(2) == 1 {
		for i, j := 0, len(frags)-1; i < j; i, j = i+1, j-1 {
			frags[i], frags[j] = frags[j], frags[i]
		}
	}
	vTerminates(3000000)
	got := CircularLigate(frags)
	vAssert(len(got) == len(rings), "one-construct-per-ring-whatever-the-schedule")
	for _, r := range rings {
		hit := false
		for _, g := range got {
			if cSameMolecule(g.Sequence, r) {
				hit = true
			}
		}
		vAssert(hit, "no-missing-ring-whatever-the-schedule")
	}
}

// pools whose overhangs close a cycle that excludes the seed
func Harness_C09_Termination() {
	vSchedules(0)
	a, b, c := vBytes(2, "ACGT"), vBytes(2, "ACGT"), vBytes(2, "ACGT")
	mk := func(interior, j0, j1 string) Fragment {
		if vChoice(2) == 1 { // supplied in the opposite orientation
			return Fragment{cRC(interior), cRC(j1), cRC(j0)}
		}
		return Fragment{interior, j0, j1}
	}
	frags := []Fragment{
		mk(a, c09Junctions[3], c09Junctions[0]), // leads into the cycle but is not part of it
		mk(b, c09Junctions[0], c09Junctions[1]),
		mk(c, c09Junctions[1], c09Junctions[0]),
	}
	if vChoice(2) == 1 {
		frags[0], frags[2] = frags[2], frags[0]
	}
	vTerminates(400000)
	var got []Part
	panicked := vPanics(func() { got = CircularLigate(frags) })
	vAssert(!panicked, "ligation-does-not-panic")
	if panicked {
		return
	}
	// exactly the ring b-c
	vAssert(len(got) == 1, "one-ring")
	if len(got) == 1 {
		vAssert(cSameMolecule(got[0].Sequence, c09Junctions[0]+b+c09Junctions[1]+c), "the-ring-of-the-cycle")
	}
}

// two simulations in one process: the second one returns its rings whatever the first one produced
func Harness_C09_TwoSimulations() {
	a, b := vBytes(1, "ACGT")+"A", vBytes(1, "ACGT")+"C"
	pool1 := []Fragment{{a, c09Junctions[0], c09Junctions[1]}, {b, c09Junctions[1], c09Junctions[0]}}
	pool2 := pool1
	ring2 := c09Junctions[0] + a + c09Junctions[1] + b
	if vChoice(2) == 1 { // a different pool sharing nothing / the same pool again
		c := vBytes(1, "ACGT") + "G"
		pool2 = []Fragment{{c, c09Junctions[0], c09Junctions[0]}}
		ring2 = c09Junctions[0] + c
	}
	vTerminates(3000000)
	var got1, got2 []Part
	panicked := vPanics(func() {
		got1 = CircularLigate(pool1)
		got2 = CircularLigate(pool2)
	})
	vAssert(!panicked, "ligation-does-not-panic")
	if panicked {
		return
	}
	vAssert(len(got1) == 1, "first-simulation-returns-its-ring")
	vAssert(len(got2) == 1, "second-simulation-returns-its-ring")
	if len(got2) == 1 {
		vAssert(cSameMolecule(got2[0].Sequence, ring2), "second-simulation-returns-its-ring")
	}
}

// a combinatorial library: every slot has several alternatives, so that the number of
// constructs handed over by the ligation goroutines grows as alternatives^slots * slots
// junction labels of the library: distinct, non-palindromic, no label is the reverse complement of another
var c09LibJunctions = []string{"AATG", "GCTT", "CGAA", "TACC", "CAGT", "GACA"}

func Harness_C09_Library() {
	k := vTier(5, 6)
	na := 3
	var frags []Fragment
	flip := vChoice(2)
	for i := 0; i < k; i++ {
		for a := 0; a < na; a++ {
			interior := string("ACGT"[a]) + string("ACGT"[(i+a)%4])
			f := Fragment{interior, c09LibJunctions[i], c09LibJunctions[(i+1)%k]}
			if (i+a+flip)%2 == 1 { // supplied in the opposite orientation
				f = Fragment{cRC(interior), cRC(c09LibJunctions[(i+1)%k]), cRC(c09LibJunctions[i])}
			}
			frags = append(frags, f)
		}
	}
	want := 1
	for i := 0; i < k; i++ {
		want *= na
	}
	vTerminates(400000000)
	var got []Part
	panicked := vPanics(func() { got = CircularLigate(frags) })
	vAssert(!panicked, "ligation-does-not-panic")
	if panicked {
		return
	}
	vAssert(len(got) == want, "library-has-alternatives^slots-constructs")
	seen := map[string]bool{}
	wellFormed := true
	for _, g := range got {
		// rotate (either strand) so that junction 0 comes first
		s := g.Sequence
		canon := ""
		for _, t := range []string{s, cRC(s)} {
			d := t + t
			for o := 0; o < len(t); o++ {
				if d[o:o+4] == c09LibJunctions[0] && d[o+6:o+10] == c09LibJunctions[1%k] {
					canon = d[o : o+len(t)]
				}
			}
		}
		if len(s) != 6*k || canon == "" {
			wellFormed = false
			continue
		}
		for i := 0; i < k; i++ {
			if canon[6*i:6*i+4] != c09LibJunctions[i] {
				wellFormed = false
			}
		}
		seen[canon] = true
	}
	vAssert(wellFormed, "every-construct-is-a-designed-ring")
	vAssert(len(seen) == want, "no-two-constructs-are-the-same-molecule")
}

func Selftest_C09_Vectors() {
	frags := []Fragment{{"AAAA", "AATG", "GCTT"}, {"CCCC", "GCTT", "AATG"}, {"GGGG", "AATG", "GGTA"}}
	for _, p := range CircularLigate(frags) {
		// which rotation of the ring is delivered first depends on the goroutine schedule: print the least one
		least := p.Sequence
		for k := 1; k < len(p.Sequence); k++ {
			if r := p.Sequence[k:] + p.Sequence[:k]; r < least {
				least = r
			}
		}
		vOut(least)
	}
}
