//go:build verif_sym || verif_native

package primers

// C17: De Bruijn barcodes are unique, non-overlapping in n-mers and ban-free.
//
// verif:bound C17 sequence clause: orders 1..4 (quick) / 1..6 (thorough); a closed computation executed by the engine (no symbolic input, the solver decides nothing here)
// verif:bound C17 barcode clauses: order 2 (quick) / 2..3 (thorough), barcode length n..5 (quick) / n..7 at order 2 and 3..5 at order 3 (thorough), 0..2 banned sequences as symbolic strings of length 2..3 over ATGC, 0..2 filters, each rejecting an arbitrary (symbolic) set of windows (one window per filter; two when there is a single filter in the thorough tier at order 2); at most 2 (quick) / 3 (thorough, order 2) / 1 (thorough, order 3) bans+filters together
// verif:bound C17 short-ban clause: order 3, barcode length 3..4 (quick) / 3..5 (thorough), one or two symbolic bans of length 1..2 (shorter than the order, so they occur many times)
// verif:bound C17 many-passes clause: order 4 (quick) / 4..5 (thorough), barcode length n..n+1, two symbolic bans of length 2: bans that keep re-introducing each other, so that one window needs many re-check passes
// verif:bound C17 reused-ban-list clause: order 2, length 3, a list of three 2-letter bans (two symbolic, one fixed); a call with its first 1..2 entries, then a call with the whole list: the list is untouched and the second result honours every ban
// verif:bound C17 outside the claim: orders 7..11 for the sequence, orders > 3 and lengths > 7 for barcodes, more than one ban or filter at order 3, more than 2 bans / filters

func c17Contains(hay, needle string) bool {
	r := vOr()
	for i := 0; i+len(needle) <= len(hay); i++ {
		r = vOr(r, vEqStr(hay[i:i+len(needle)], needle))
	}
	return r
}

func c17RC(s string) string {
	n := len(s)
	b := make([]byte, n)
	for i := 0; i < n; i++ {
		c := s[i]
		b[n-1-i] = vIteByte(c == 'A', 'T', vIteByte(c == 'T', 'A', vIteByte(c == 'G', 'C', 'G')))
	}
	return string(b)
}

func Harness_C17_Sequence() {
	n := 1 + vChoice(vTier(4, 6))
	s := NucleobaseDeBruijnSequence(n)
	want := 1
	for i := 0; i < n; i++ {
		want *= 4
	}
	vAssert(len(s) == want+n-1, "length-is-4^n+n-1")
	seen := map[string]int{}
	for i := 0; i+n <= len(s); i++ {
		seen[s[i:i+n]]++
	}
	vAssert(len(seen) == want, "every-word-occurs")
	once := true
	for _, c := range seen {
		if c != 1 {
			once = false
		}
	}
	vAssert(once, "every-word-exactly-once")
	for i := 0; i < len(s); i++ {
		vAssert(s[i] == 'A' || s[i] == 'T' || s[i] == 'G' || s[i] == 'C', "alphabet")
	}
}

func Harness_C17_Barcodes() {
	order := 2 + vChoice(vTier(1, 2))
	length := order + vChoice(vTier(4, 6)+2-order)
	if order == 3 {
		length = 3 + vChoice(3) // order 3: lengths 3..5
	}
	nb := vChoice(3)
	nf := vChoice(3)
	if nb+nf > vTier(2, 3) || (order == 3 && nb+nf > 1) {
		vAssume(false)
	}
	var bans []string
	for i := 0; i < nb; i++ {
		bans = append(bans, vBytes(2+vChoice(2), "ATGC"))
	}
	// a filter rejects an arbitrary (symbolic) set of at most 1 (quick) / 2 (thorough) windows
	var filters []func(string) bool
	var rejected [][]string
	for i := 0; i < nf; i++ {
		var rs []string
		nrej := vTier(1, 2)
		if order == 3 || nf > 1 {
			nrej = 1 // at most two symbolic rejected windows in total
		}
		for j := 0; j < nrej; j++ {
			rs = append(rs, vBytes(length, "ATGC"))
		}
		rejected = append(rejected, rs)
		filters = append(filters, func(s string) bool {
			for _, r := range rs {
				if s == r {
					return false
				}
			}
			return true
		})
	}
	// a ban pair in which avoiding one re-admits the other / a reverse complement
	vFinding("C17-F1", false)
	vTerminates(3000000)
	var codes []string
	panicked := vPanics(func() { codes = CreateBarcodesWithBannedSequences(length, order, bans, filters) })
	vAssert(!panicked, "barcode-generation-does-not-panic")
	if panicked {
		return
	}
	db := NucleobaseDeBruijnSequence(order)
	words := map[string]int{}
	for ci, c := range codes {
		vAssert(len(c) == length, "barcode-has-requested-length")
		found := false
		for i := 0; i+len(c) <= len(db); i++ {
			if db[i:i+len(c)] == c {
				found = true
			}
		}
		vAssert(found, "barcode-is-a-substring-of-the-sequence")
		ws := map[string]bool{}
		for i := 0; i+order <= len(c); i++ {
			ws[c[i:i+order]] = true
		}
		for w := range ws {
			prev, ok := words[w]
			vAssert(!ok || prev == ci, "barcodes-share-no-n-word")
			words[w] = ci
		}
		for _, b := range bans {
			vAssert(vNot(c17Contains(c, b)), "barcode-contains-no-banned-sequence")
			vAssert(vNot(c17Contains(c, c17RC(b))), "barcode-contains-no-reverse-complement-of-a-ban")
		}
		for i := 0; i < nf; i++ {
			for _, r := range rejected[i] {
				vAssert(vNot(vEqStr(c, r)), "every-filter-accepts-every-barcode")
			}
		}
	}
	if nb == 2 {
		vCover("C17 two different bans", vNot(vEqStr(bans[0]+"x", bans[1]+"x")))
	}
	if nb == 0 && nf == 0 {
		vCover("C17 several barcodes", len(codes) >= 2)
	}
}

// a ban shorter than the order occurs many times in the sequence: every occurrence must be avoided
func Harness_C17_ShortBan() {
	order := 3
	length := 3 + vChoice(vTier(2, 3))
	ban := vBytes(1+vChoice(2), "ATGC")
	bans := []string{ban}
	if vChoice(2) == 1 {
		bans = append(bans, vBytes(2, "ATGC")) // a second short ban: the two keep re-introducing each other
	}
	vTerminates(3000000)
	var codes []string
	panicked := vPanics(func() { codes = CreateBarcodesWithBannedSequences(length, order, bans, nil) })
	vAssert(!panicked, "barcode-generation-does-not-panic")
	if panicked {
		return
	}
	for _, c := range codes {
		vAssert(len(c) == length, "barcode-has-requested-length")
		for _, b := range bans {
			vAssert(vNot(c17Contains(c, b)), "barcode-contains-no-banned-sequence")
			vAssert(vNot(c17Contains(c, c17RC(b))), "barcode-contains-no-reverse-complement-of-a-ban")
		}
	}
}

// larger orders, several short bans: a window is re-checked as often as the bans re-introduce each other
func Harness_C17_ManyPasses() {
	order := 4 + vChoice(vTier(1, 2))
	length := order + vChoice(2)
	bans := []string{vBytes(2, "ATGC"), vBytes(2, "ATGC")}
	vTerminates(30000000)
	var codes []string
	panicked := vPanics(func() { codes = CreateBarcodesWithBannedSequences(length, order, bans, nil) })
	vAssert(!panicked, "barcode-generation-does-not-panic")
	if panicked {
		return
	}
	clean, cleanRC := vAnd(), vAnd()
	for _, c := range codes {
		for _, b := range bans {
			clean = vAnd(clean, vNot(c17Contains(c, b)))
			cleanRC = vAnd(cleanRC, vNot(c17Contains(c, c17RC(b))))
		}
	}
	vAssert(clean, "barcode-contains-no-banned-sequence")
	vAssert(cleanRC, "barcode-contains-no-reverse-complement-of-a-ban")
}

// the caller's ban list is an argument, not scratch space: a call with a prefix of a longer list
// leaves the rest of the list alone, and a later call with the whole list honours every ban
func Harness_C17_BanListReused() {
	order, length := 2, 3
	all := []string{vBytes(2, "ATGC"), "GA", vBytes(2, "ATGC")}
	saved := append([]string{}, all...)
	k := 1 + vChoice(2)
	vTerminates(3000000)
	var codes []string
	panicked := vPanics(func() {
		CreateBarcodesWithBannedSequences(length, order, all[:k], nil)
		codes = CreateBarcodesWithBannedSequences(length, order, all, nil)
	})
	vAssert(!panicked, "barcode-generation-does-not-panic")
	if panicked {
		return
	}
	same := vAnd()
	for i := range all {
		same = vAnd(same, vEqStr(all[i], saved[i]))
	}
	vAssert(same, "ban-list-of-the-caller-is-left-untouched")
	clean := vAnd()
	for _, c := range codes {
		for _, b := range saved {
			clean = vAnd(clean, vNot(c17Contains(c, b)), vNot(c17Contains(c, c17RC(b))))
		}
	}
	vAssert(clean, "barcode-contains-no-banned-sequence")
}

func Selftest_C17_Vectors() {
	for n := 1; n <= 4; n++ {
		vOut(NucleobaseDeBruijnSequence(n))
	}
	for _, c := range CreateBarcodes(20, 4) {
		vOut(c)
	}
	for _, c := range CreateBarcodesWithBannedSequences(20, 4, []string{"CTCTCGGTCGCTCC"}, []func(string) bool{}) {
		vOut(c)
	}
	for _, c := range CreateBarcodesWithBannedSequences(5, 3, []string{"AAA", "GCA"}, []func(string) bool{func(s string) bool { return s[0] != 'T' }}) {
		vOut(c)
	}
}
