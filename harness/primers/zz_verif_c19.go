//go:build verif_sym || verif_native

package primers

// C19: melting temperatures follow the nearest-neighbour formula monotonically.
//
// verif:bound C19 all A/C/G/T sequences in both cases of length 2..5 (quick) / 2..6 (thorough; the helper clauses to 7); the three concentrations symbolic reals (oligo 1e-9..1e-3, sodium 1e-3..1, magnesium 0..0.1)
// verif:assume C19 REAL-ARITHMETIC ABSTRACTION: every float64 operation of the code is mapped to exact real arithmetic and math.Log to an uninterpreted strictly monotone function; floating-point rounding is entirely outside the claim
// verif:assume C19 the oracle takes the parameter values from the package's own tables at run time and fixes only the structure of the formula
// verif:bound C19 call-independence clause: an oligo of 2..3 symbolic letters evaluated first, then one of 2 (quick) / 2 or 4 (thorough) letters checked against the formula (the harness reads the package's penalty constants after both calls)
// verif:bound C19 outside the claim: sequences longer than the bound; rounding; the numeric values of the nearest-neighbour parameters (only the strand symmetry of the table is checked)

import "math"

func c19Upper(s string) string {
	b := make([]byte, len(s))
	for i := 0; i < len(s); i++ {
		b[i] = vIteByte(s[i] >= 'a', s[i]-32, s[i])
	}
	return string(b)
}

func c19RC(u string) string {
	n := len(u)
	b := make([]byte, n)
	for i := 0; i < n; i++ {
		c := u[i]
		b[n-1-i] = vIteByte(c == 'A', 'T', vIteByte(c == 'T', 'A', vIteByte(c == 'G', 'C', 'G')))
	}
	return string(b)
}

func c19Sel(c bool, a, b float64) float64 {
	// arithmetic selection without a branch: the engine keeps it as one term
	return vIteFloat(c, a, b)
}

// the nearest-neighbour sums as terms: sum over the 16 pairs of [pair occurs at i] * value
func c19NN(u string) (h, s float64) {
	pairs := []string{"AA", "TT", "AT", "TA", "CA", "TG", "GT", "AC", "CT", "AG", "GA", "TC", "CG", "GC", "GG", "CC"}
	for i := 0; i+1 < len(u); i++ {
		for _, pr := range pairs {
			t := nearestNeighborsThermodynamics[pr]
			hit := vEqStr(u[i:i+2], pr)
			h += c19Sel(hit, t.H, 0)
			s += c19Sel(hit, t.S, 0)
		}
	}
	return
}

func Harness_C19_Formula() {
	vRealMode()
	n := 2 + vChoice(vTier(4, 5))
	seq := vBytes(n, "ACGTacgt")
	primer := vFloat(1e-9, 1e-3)
	salt := vFloat(1e-3, 1)
	mg := vFloat(0, 0.1)
	tm, dH, dS := SantaLucia(seq, primer, salt, mg)
	if vFloatIsSpecial(tm) {
		return // the denominator dS + R ln(C/f) is zero on this path: no temperature is defined
	}
	u := c19Upper(seq)
	nh, ns := c19NN(u)
	wantH := initialThermodynamicPenalty.H
	wantS := initialThermodynamicPenalty.S
	f := 4.0
	// the harness branches on the same facts the code branches on (no extra paths)
	if vEqStr(u, c19RC(u)) {
		wantH += symmetryThermodynamicPenalty.H
		wantS += symmetryThermodynamicPenalty.S
		f = 1
		vCover("C19 self-complementary oligo", true)
	}
	if vOr(u[n-1] == 'A', u[n-1] == 'T') {
		wantH += terminalATThermodynamicPenalty.H
		wantS += terminalATThermodynamicPenalty.S
		vCover("C19 terminal A/T", true)
	}
	wantH += nh
	wantS += ns + 0.368*float64(n-1)*math.Log(salt+140*mg)
	vAssert(vEqFloat(dH, wantH), "enthalpy-is-nearest-neighbour-sum-plus-terms")
	vAssert(vEqFloat(dS, wantS), "entropy-is-nearest-neighbour-sum-plus-terms-plus-salt")
	vAssert(vEqFloat(tm, dH*1000/(dS+1.9872*math.Log(primer/f))-273.15), "melting-temperature-formula")
	// case independence and independence of enthalpy from concentrations
	tm2, dH2, dS2 := SantaLucia(u, primer, salt, mg)
	if vFloatIsSpecial(tm2) {
		return
	}
	vAssert(vAnd(vEqFloat(tm, tm2), vEqFloat(dH, dH2), vEqFloat(dS, dS2)), "case-independent")
	primerB := vFloat(1e-9, 1e-3)
	saltB := vFloat(1e-3, 1)
	mgB := vFloat(0, 0.1)
	_, dH3, _ := SantaLucia(seq, primerB, saltB, mgB)
	vAssert(vEqFloat(dH, dH3), "enthalpy-independent-of-concentrations")
}

// the answer depends on this call's arguments only: an oligo evaluated after another one
func Harness_C19_AfterAnotherCall() {
	vRealMode()
	first := vBytes(2+vChoice(2), "ACGT")
	second := vBytes(2+2*vChoice(vTier(1, 2)), "ACGT")
	primer, salt, mg := vFloat(1e-9, 1e-3), vFloat(1e-3, 1), vFloat(0, 0.1)
	SantaLucia(first, primer, salt, mg)
	tm, dH, dS := SantaLucia(second, primer, salt, mg)
	if vFloatIsSpecial(tm) {
		return
	}
	n := len(second)
	nh, ns := c19NN(second)
	wantH := initialThermodynamicPenalty.H + nh
	wantS := initialThermodynamicPenalty.S + ns + 0.368*float64(n-1)*math.Log(salt+140*mg)
	f := 4.0
	if vEqStr(second, c19RC(second)) {
		wantH += symmetryThermodynamicPenalty.H
		wantS += symmetryThermodynamicPenalty.S
		f = 1
		vCover("C19 self-complementary oligo after another call", true)
	}
	if vOr(second[n-1] == 'A', second[n-1] == 'T') {
		wantH += terminalATThermodynamicPenalty.H
		wantS += terminalATThermodynamicPenalty.S
	}
	vAssert(vEqFloat(dH, wantH), "enthalpy-after-another-call")
	vAssert(vEqFloat(dS, wantS), "entropy-after-another-call")
	vAssert(vEqFloat(tm, dH*1000/(dS+1.9872*math.Log(primer/f))-273.15), "melting-temperature-after-another-call")
}

func Harness_C19_Monotone() {
	vRealMode()
	n := 2 + vChoice(vTier(3, 5))
	seq := vBytes(n, "ACGT")
	primer := vFloat(1e-9, 1e-3)
	salt := vFloat(1e-3, 1)
	mg := vFloat(0, 0.1)
	which := vChoice(3)
	p2, s2, m2 := primer, salt, mg
	switch which {
	case 0:
		p2 = vFloat(1e-9, 1e-3)
		vAssume(primer < p2)
	case 1:
		s2 = vFloat(1e-3, 1)
		vAssume(salt < s2)
	case 2:
		m2 = vFloat(0, 0.1)
		vAssume(mg < m2)
	}
	tm1, dH, dS1 := SantaLucia(seq, primer, salt, mg)
	tm2, _, dS2 := SantaLucia(seq, p2, s2, m2)
	if vFloatIsSpecial(tm1) || vFloatIsSpecial(tm2) {
		return // a zero denominator: outside the duplex-forming regime
	}
	u := seq
	f := c19Sel(vEqStr(u, c19RC(u)), 1, 4)
	d1 := dS1 + 1.9872*math.Log(primer/f)
	d2 := dS2 + 1.9872*math.Log(p2/f)
	// duplex-forming regime: negative enthalpy and negative denominators
	regime := vAnd(dH < 0, d1 < 0, d2 < 0)
	vAssert(vImplies(regime, tm1 < tm2), "melting-temperature-strictly-increases-with-concentration")
	vCover("C19 regime is reachable", regime)
}

func Harness_C19_Helpers() {
	vRealMode()
	n := 2 + vChoice(vTier(4, 6))
	seq := vBytes(n, "ACGTacgt")
	a := MeltingTemp(seq)
	b, _, _ := SantaLucia(seq, 500e-9, 50e-3, 0)
	vAssert(vEqFloat(a, b), "default-helper-equals-general-function")
	u := c19Upper(seq)
	cnt := func(c byte) float64 {
		k := 0
		for i := 0; i < n; i++ {
			k += vIteInt(u[i] == c, 1, 0)
		}
		return float64(k)
	}
	md := MarmurDoty(seq)
	vAssert(vEqFloat(md, 2*(cnt('A')+cnt('T'))+4*(cnt('C')+cnt('G'))-7.0), "marmur-doty")
}

func Harness_C19_TableSymmetry() {
	k := vChoice(16)
	pairs := []string{"AA", "TT", "AT", "TA", "CA", "TG", "GT", "AC", "CT", "AG", "GA", "TC", "CG", "GC", "GG", "CC"}
	pr := pairs[k]
	rc := c19RC(pr)
	a, oka := nearestNeighborsThermodynamics[pr]
	b, okb := nearestNeighborsThermodynamics[rc]
	vAssert(oka && okb, "table-has-all-sixteen-pairs")
	vAssert(a.H == b.H && a.S == b.S, "table-strand-symmetric")
	vAssert(len(nearestNeighborsThermodynamics) == 16, "sixteen-entries")
}

func Selftest_C19_Vectors() {
	for _, s := range []string{"ACGATGGCAGTAGCATGC", "acgatggcagtagcatgc", "GAATTC", "AT", "GTAAAACGACGGCCAGT"} {
		tm, dh, ds := SantaLucia(s, 500e-9, 50e-3, 0)
		vOut(c19Fmt(tm) + " " + c19Fmt(dh) + " " + c19Fmt(ds) + " " + c19Fmt(MeltingTemp(s)) + " " + c19Fmt(MarmurDoty(s)))
	}
}

func c19Fmt(f float64) string {
	// fixed-point with 6 decimals, no fmt
	neg := f < 0
	if neg {
		f = -f
	}
	i := int64(f)
	fr := int64((f-float64(i))*1e6 + 0.5)
	if fr >= 1000000 {
		i++
		fr -= 1000000
	}
	s := ""
	for d := 0; d < 6; d++ {
		s = string(rune('0'+fr%10)) + s
		fr /= 10
	}
	is := ""
	if i == 0 {
		is = "0"
	}
	for i > 0 {
		is = string(rune('0'+i%10)) + is
		i /= 10
	}
	if neg {
		is = "-" + is
	}
	return is + "." + s
}
