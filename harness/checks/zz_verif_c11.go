//go:build verif_sym || verif_native

package checks

// C11 (palindrome part): IsPalindromic(s) <=> s equals its reverse complement
// computed by the harness's own complement table.
//
// verif:bound C11 palindrome clause: all strings over the 15 IUPAC codes in both cases, length 0..5 (quick) / 0..8 (thorough)

const c11Both = "ACGTRYSWKMBDHVNacgtryswkmbdhvn"

func c11CompTable() string {
	t := make([]byte, 256)
	pairs := "ATTACGGCRYYRSSWWKMMKBVVBDHHDNN"
	for i := 0; i < len(pairs); i += 2 {
		t[pairs[i]] = pairs[i+1]
		t[pairs[i]+32] = pairs[i+1] + 32
	}
	return string(t)
}

func Harness_C11_Palindromic() {
	n := vChoice(vTier(6, 9))
	s := vBytes(n, c11Both)
	tab := c11CompTable()
	out := make([]byte, n)
	for i := 0; i < n; i++ {
		out[n-1-i] = vTable(tab, s[i])
	}
	want := vEqStr(s, string(out))
	got := IsPalindromic(s)
	vAssert(vIff(got, want), "palindromic-iff-equals-own-reverse-complement")
	if n >= 2 {
		vCover("C11 a palindrome exists", want)
		vCover("C11 a non-palindrome exists", vNot(want))
	}
}

func Selftest_C11_Palindromes() {
	for _, s := range []string{"", "AT", "GAATTC", "GGTCTC", "acgt", "AcGt", "N", "SW", "KM", "BV"} {
		if IsPalindromic(s) {
			vOut(s + " yes")
		} else {
			vOut(s + " no")
		}
	}
}
