package main

// The JSON *text* layer (enabled per harness with vJSONText): json.Marshal /
// MarshalIndent produce real JSON bytes following encoding/json's rules (field
// order, names, omitempty, HTML-safe string escaping, sorted map keys,
// null for nil slices / maps / pointers, Indent's layout), and json.Unmarshal
// parses JSON bytes (validity check first, then assignment with exact / case-
// insensitive field matching).  String contents may be symbolic: the escape class
// of each symbolic byte and every structural test in the parser are path
// decisions.  Symbolic bytes are ASCII; concrete non-ASCII text follows
// encoding/json's UTF-8 rules (U+2028/9 escaped, invalid bytes -> U+FFFD, \u escapes
// with surrogate pairs); floats, []byte (base64), Marshaler / TextMarshaler
// implementations and embedded structs are UNSUPPORTED.

import (
	"fmt"
	"go/types"
	"sort"
	"strconv"
	"unicode"
	"unicode/utf16"
	"unicode/utf8"
)

// ---- encoder --------------------------------------------------------------------

type jsonEnc struct {
	p      *Path
	out    []Value
	indent bool
	prefix string
	ind    string
}

func (e *jsonEnc) lit(s string) {
	for i := 0; i < len(s); i++ {
		e.out = append(e.out, int64(s[i]))
	}
}

func (e *jsonEnc) newline(depth int) {
	if !e.indent {
		return
	}
	e.lit("\n" + e.prefix)
	for i := 0; i < depth; i++ {
		e.lit(e.ind)
	}
}

func (e *jsonEnc) str(s Value) {
	p := e.p
	e.lit(`"`)
	bs := strBytes(s)
	for i := 0; i < len(bs); i++ {
		b := bs[i]
		if c, ok := b.(int64); ok {
			if c < 0x80 {
				e.escByte(byte(c))
				continue
			}
			// concrete non-ASCII: valid UTF-8 is copied (U+2028 / U+2029 escaped), an invalid byte becomes \ufffd
			buf := concreteRun(bs, i)
			r, size := utf8.DecodeRune(buf)
			switch {
			case r == utf8.RuneError && size == 1:
				e.lit(`\ufffd`)
			case r == 0x2028:
				e.lit(`\u2028`)
			case r == 0x2029:
				e.lit(`\u2029`)
			default:
				for k := 0; k < size; k++ {
					e.out = append(e.out, int64(buf[k]))
				}
			}
			i += size - 1
			continue
		}
		// symbolic byte: its escape class is a path decision
		switch {
		case p.byteIn(b, 0x80, 0xFF):
			panic(unsupported("symbolic non-ASCII byte in a JSON string (non-ASCII text is covered for concrete bytes only)"))
		case p.byteIn(b, '"', '"'), p.byteIn(b, '\\', '\\'):
			e.out = append(e.out, int64('\\'), b)
		case p.byteIn(b, '<', '<'), p.byteIn(b, '>', '>'), p.byteIn(b, '&', '&'), p.byteIn(b, 0, 0x1F):
			// \u00XX (and the short forms \b \f \n \r \t): concretise
			e.escByte(byte(p.Concretize(b.(*Term), "JSON string byte that needs escaping")))
		default:
			e.out = append(e.out, b)
		}
	}
	e.lit(`"`)
}

// concreteRun returns up to four concrete bytes starting at i (a symbolic byte is ASCII and ends the run).
func concreteRun(bs []Value, i int) []byte {
	var buf []byte
	for k := i; k < len(bs) && k < i+4; k++ {
		c, ok := bs[k].(int64)
		if !ok {
			break
		}
		buf = append(buf, byte(c))
	}
	return buf
}

func (e *jsonEnc) escByte(c byte) {
	const hexd = "0123456789abcdef"
	switch {
	case c == '\\' || c == '"':
		e.out = append(e.out, int64('\\'), int64(c))
	case c == '\b':
		e.lit(`\b`)
	case c == '\f':
		e.lit(`\f`)
	case c == '\n':
		e.lit(`\n`)
	case c == '\r':
		e.lit(`\r`)
	case c == '\t':
		e.lit(`\t`)
	case c < 0x20 || c == '<' || c == '>' || c == '&':
		e.lit(`\u00`)
		e.out = append(e.out, int64(hexd[c>>4]), int64(hexd[c&0xF]))
	default:
		e.out = append(e.out, int64(c))
	}
}

func (e *jsonEnc) value(v Value, t types.Type, depth int) {
	p := e.p
	if n, ok := t.(*types.Named); ok {
		for i := 0; i < n.NumMethods(); i++ {
			switch n.Method(i).Name() {
			case "MarshalJSON", "MarshalText":
				panic(unsupported("JSON text layer: type %v implements %s", t, n.Method(i).Name()))
			}
		}
	}
	switch u := t.Underlying().(type) {
	case *types.Basic:
		switch {
		case u.Info()&types.IsString != 0:
			e.str(v)
		case u.Info()&types.IsBoolean != 0:
			if p.decideVal(v) {
				e.lit("true")
			} else {
				e.lit("false")
			}
		case u.Info()&types.IsInteger != 0:
			var x int64
			switch c := v.(type) {
			case int64:
				x = c
			case *Term:
				x = p.Concretize(c, "integer written to JSON")
			}
			ii, _ := intInfoOf(t)
			if ii.Signed {
				e.lit(strconv.FormatInt(x, 10))
			} else {
				e.lit(strconv.FormatUint(uint64(x), 10))
			}
		default:
			panic(unsupported("JSON text layer: basic type %v", t))
		}
	case *types.Struct:
		sv := v.(Struct)
		e.lit("{")
		first := true
		for _, f := range jsonFields(u) {
			if f.omitempty && p.jsonIsEmpty(sv[f.idx], f.t) {
				continue
			}
			if !first {
				e.lit(",")
			}
			e.newline(depth + 1)
			first = false
			e.str(f.name)
			e.lit(":")
			if e.indent {
				e.lit(" ")
			}
			e.value(sv[f.idx], f.t, depth+1)
		}
		if !first {
			e.newline(depth)
		}
		e.lit("}")
	case *types.Slice:
		sl := v.(Slice)
		if sl.A == nil {
			e.lit("null")
			return
		}
		if b := basicOf(u.Elem()); b != nil && b.Kind() == types.Uint8 {
			panic(unsupported("JSON text layer: []byte (base64)"))
		}
		e.lit("[")
		for i, x := range sl.A {
			if i > 0 {
				e.lit(",")
			}
			e.newline(depth + 1)
			e.value(x, u.Elem(), depth+1)
		}
		if len(sl.A) > 0 {
			e.newline(depth)
		}
		e.lit("]")
	case *types.Array:
		a := v.(Array)
		e.lit("[")
		for i, x := range a {
			if i > 0 {
				e.lit(",")
			}
			e.newline(depth + 1)
			e.value(x, u.Elem(), depth+1)
		}
		if len(a) > 0 {
			e.newline(depth)
		}
		e.lit("]")
	case *types.Map:
		m, _ := v.(*Map)
		if m == nil {
			e.lit("null")
			return
		}
		if !isString(u.Key()) {
			panic(unsupported("JSON text layer: non-string map keys"))
		}
		es := m.live()
		// keys are written in sorted order (insertion sort with possibly symbolic comparisons)
		sorted := append([]*mapEntry(nil), es...)
		allc := true
		for _, x := range sorted {
			if _, ok := x.K.(string); !ok {
				allc = false
			}
		}
		if allc {
			sort.Slice(sorted, func(i, j int) bool { return sorted[i].K.(string) < sorted[j].K.(string) })
		} else {
			for i := 1; i < len(sorted); i++ {
				for j := i; j > 0 && p.decideVal(p.strLess(sorted[j].K, sorted[j-1].K, false)); j-- {
					sorted[j], sorted[j-1] = sorted[j-1], sorted[j]
				}
			}
		}
		e.lit("{")
		for i, x := range sorted {
			if i > 0 {
				e.lit(",")
			}
			e.newline(depth + 1)
			e.str(x.K)
			e.lit(":")
			if e.indent {
				e.lit(" ")
			}
			e.value(x.V, u.Elem(), depth+1)
		}
		if len(sorted) > 0 {
			e.newline(depth)
		}
		e.lit("}")
	case *types.Pointer:
		ptr, _ := v.(*Value)
		if ptr == nil {
			e.lit("null")
			return
		}
		e.value(*ptr, u.Elem(), depth)
	case *types.Interface:
		itf := v.(Iface)
		if itf.T == nil {
			e.lit("null")
			return
		}
		e.value(itf.V, itf.T, depth)
	default:
		panic(unsupported("JSON text layer: type %v", t))
	}
}

// ---- parser ---------------------------------------------------------------------

type jnode struct {
	kind byte // s string, n number, o object, a array, t true, f false, z null
	str  []Value
	num  string
	arr  []*jnode
	keys [][]Value
	vals []*jnode
}

type jsonParser struct {
	p   *Path
	d   []Value
	pos int
}

type jsonSyntaxError struct{ msg string }

func (jp *jsonParser) fail(format string, a ...interface{}) {
	panic(jsonSyntaxError{fmt.Sprintf(format, a...)})
}

func (jp *jsonParser) is(i int, c byte) bool {
	if i >= len(jp.d) {
		return false
	}
	return jp.p.decideVal(jp.p.equalsByte(jp.d[i], c))
}

func (jp *jsonParser) ws() {
	for jp.pos < len(jp.d) && (jp.is(jp.pos, ' ') || jp.is(jp.pos, '\n') || jp.is(jp.pos, '\t') || jp.is(jp.pos, '\r')) {
		jp.pos++
	}
}

func (jp *jsonParser) expectLit(s string) {
	for i := 0; i < len(s); i++ {
		if !jp.is(jp.pos, s[i]) {
			jp.fail("invalid character in literal %s", s)
		}
		jp.pos++
	}
}

func (jp *jsonParser) value() *jnode {
	jp.ws()
	if jp.pos >= len(jp.d) {
		jp.fail("unexpected end of JSON input")
	}
	switch {
	case jp.is(jp.pos, '"'):
		return &jnode{kind: 's', str: jp.str()}
	case jp.is(jp.pos, '{'):
		jp.pos++
		n := &jnode{kind: 'o'}
		jp.ws()
		if jp.is(jp.pos, '}') {
			jp.pos++
			return n
		}
		for {
			jp.ws()
			if !jp.is(jp.pos, '"') {
				jp.fail("invalid character looking for beginning of object key string")
			}
			k := jp.str()
			jp.ws()
			if !jp.is(jp.pos, ':') {
				jp.fail("invalid character after object key")
			}
			jp.pos++
			v := jp.value()
			n.keys = append(n.keys, k)
			n.vals = append(n.vals, v)
			jp.ws()
			if jp.is(jp.pos, ',') {
				jp.pos++
				continue
			}
			if jp.is(jp.pos, '}') {
				jp.pos++
				return n
			}
			jp.fail("invalid character after object key:value pair")
		}
	case jp.is(jp.pos, '['):
		jp.pos++
		n := &jnode{kind: 'a', arr: []*jnode{}}
		jp.ws()
		if jp.is(jp.pos, ']') {
			jp.pos++
			return n
		}
		for {
			n.arr = append(n.arr, jp.value())
			jp.ws()
			if jp.is(jp.pos, ',') {
				jp.pos++
				continue
			}
			if jp.is(jp.pos, ']') {
				jp.pos++
				return n
			}
			jp.fail("invalid character after array element")
		}
	case jp.is(jp.pos, 't'):
		jp.expectLit("true")
		return &jnode{kind: 't'}
	case jp.is(jp.pos, 'f'):
		jp.expectLit("false")
		return &jnode{kind: 'f'}
	case jp.is(jp.pos, 'n'):
		jp.expectLit("null")
		return &jnode{kind: 'z'}
	}
	// number
	st := jp.pos
	num := ""
	if jp.is(jp.pos, '-') {
		num += "-"
		jp.pos++
	}
	digits := 0
	for jp.pos < len(jp.d) && jp.p.byteIn(jp.d[jp.pos], '0', '9') {
		c, ok := jp.d[jp.pos].(int64)
		if !ok {
			c = jp.p.Concretize(jp.d[jp.pos].(*Term), "JSON digit")
		}
		num += string(rune(c))
		jp.pos++
		digits++
	}
	if digits == 0 {
		jp.pos = st
		jp.fail("invalid character looking for beginning of value")
	}
	if jp.pos < len(jp.d) && (jp.is(jp.pos, '.') || jp.is(jp.pos, 'e') || jp.is(jp.pos, 'E')) {
		panic(unsupported("JSON text layer: non-integer numbers"))
	}
	return &jnode{kind: 'n', num: num}
}

// peekU4 reads a following \uXXXX escape without consuming it (encoding/json's getu4).
func (jp *jsonParser) peekU4() (int64, bool) {
	if jp.pos+6 > len(jp.d) || !jp.is(jp.pos, '\\') || !jp.is(jp.pos+1, 'u') {
		return 0, false
	}
	r := int64(0)
	for k := 2; k < 6; k++ {
		var h int64
		switch x := jp.d[jp.pos+k].(type) {
		case int64:
			h = x
		case *Term:
			h = jp.p.Concretize(x, "JSON hex digit")
		}
		var dv int64
		switch {
		case h >= '0' && h <= '9':
			dv = h - '0'
		case h >= 'a' && h <= 'f':
			dv = h - 'a' + 10
		case h >= 'A' && h <= 'F':
			dv = h - 'A' + 10
		default:
			return 0, false
		}
		r = r*16 + dv
	}
	return r, true
}

func (jp *jsonParser) str() []Value {
	p := jp.p
	jp.pos++ // opening quote
	var out []Value
	for {
		if jp.pos >= len(jp.d) {
			jp.fail("unexpected end of JSON input")
		}
		b := jp.d[jp.pos]
		switch {
		case jp.is(jp.pos, '"'):
			jp.pos++
			return out
		case jp.is(jp.pos, '\\'):
			jp.pos++
			if jp.pos >= len(jp.d) {
				jp.fail("unexpected end of JSON input")
			}
			var c int64
			switch x := jp.d[jp.pos].(type) {
			case int64:
				c = x
			case *Term:
				c = p.Concretize(x, "JSON escape character")
			}
			jp.pos++
			switch c {
			case '"', '\\', '/':
				out = append(out, c)
			case 'b':
				out = append(out, int64('\b'))
			case 'f':
				out = append(out, int64('\f'))
			case 'n':
				out = append(out, int64('\n'))
			case 'r':
				out = append(out, int64('\r'))
			case 't':
				out = append(out, int64('\t'))
			case 'u':
				if jp.pos+4 > len(jp.d) {
					jp.fail("unexpected end of JSON input")
				}
				r := int64(0)
				for k := 0; k < 4; k++ {
					var h int64
					switch x := jp.d[jp.pos+k].(type) {
					case int64:
						h = x
					case *Term:
						h = p.Concretize(x, "JSON hex digit")
					}
					var dv int64
					switch {
					case h >= '0' && h <= '9':
						dv = h - '0'
					case h >= 'a' && h <= 'f':
						dv = h - 'a' + 10
					case h >= 'A' && h <= 'F':
						dv = h - 'A' + 10
					default:
						jp.fail("invalid character in \\u hexadecimal character escape")
					}
					r = r*16 + dv
				}
				jp.pos += 4
				if utf16.IsSurrogate(rune(r)) {
					if r2, ok := jp.peekU4(); ok {
						if dec := utf16.DecodeRune(rune(r), rune(r2)); dec != unicode.ReplacementChar {
							jp.pos += 6
							r = int64(dec)
						} else {
							r = unicode.ReplacementChar
						}
					} else {
						r = unicode.ReplacementChar
					}
				}
				var enc [4]byte
				n := utf8.EncodeRune(enc[:], rune(r))
				for k := 0; k < n; k++ {
					out = append(out, int64(enc[k]))
				}
			default:
				jp.fail("invalid character in string escape code")
			}
		default:
			if p.byteIn(b, 0, 0x1F) {
				jp.fail("invalid character in string literal")
			}
			if c, ok := b.(int64); ok && c >= 0x80 {
				// concrete non-ASCII: valid UTF-8 is copied, an invalid byte becomes U+FFFD
				buf := concreteRun(jp.d, jp.pos)
				r, size := utf8.DecodeRune(buf)
				if r == utf8.RuneError && size == 1 {
					out = append(out, int64(0xEF), int64(0xBF), int64(0xBD))
				} else {
					for k := 0; k < size; k++ {
						out = append(out, int64(buf[k]))
					}
				}
				jp.pos += size
				continue
			}
			if p.byteIn(b, 0x80, 0xFF) {
				panic(unsupported("symbolic non-ASCII byte in JSON text (non-ASCII text is covered for concrete bytes only)"))
			}
			out = append(out, b)
			jp.pos++
		}
	}
}

// jsonAssign stores a parsed node into a destination of type t (encoding/json's rules).
func (p *Path) jsonAssign(dst *Value, t types.Type, n *jnode) {
	if nm, ok := t.(*types.Named); ok {
		for i := 0; i < nm.NumMethods(); i++ {
			switch nm.Method(i).Name() {
			case "UnmarshalJSON", "UnmarshalText":
				panic(unsupported("JSON text layer: type %v implements %s", t, nm.Method(i).Name()))
			}
		}
	}
	if n.kind == 'z' {
		switch t.Underlying().(type) {
		case *types.Pointer, *types.Map, *types.Slice, *types.Interface:
			*dst = zero(t)
		}
		return
	}
	switch u := t.Underlying().(type) {
	case *types.Basic:
		switch {
		case u.Info()&types.IsString != 0:
			if n.kind == 's' {
				*dst = mkStr(append([]Value(nil), n.str...))
			}
		case u.Info()&types.IsBoolean != 0:
			if n.kind == 't' {
				*dst = true
			} else if n.kind == 'f' {
				*dst = false
			}
		case u.Info()&types.IsInteger != 0:
			if n.kind == 'n' {
				x, err := strconv.ParseInt(n.num, 10, 64)
				if err == nil {
					ii, _ := intInfoOf(t)
					*dst = normInt(x, ii)
				}
			}
		}
	case *types.Struct:
		if n.kind != 'o' {
			return
		}
		sv := (*dst).(Struct)
		fs := jsonFields(u)
		for i, k := range n.keys {
			key := mkStr(k)
			var hit *jsonField
			for j := range fs {
				if p.decideVal(p.strEq(key, fs[j].name)) {
					hit = &fs[j]
					break
				}
			}
			if hit == nil {
				for j := range fs {
					if p.decideVal(p.strEq(p.mapCase(key, false), p.mapCase(fs[j].name, false))) {
						hit = &fs[j]
						break
					}
				}
			}
			if hit != nil {
				p.jsonAssign(&sv[hit.idx], hit.t, n.vals[i])
			}
		}
	case *types.Slice:
		if n.kind != 'a' {
			return
		}
		out := make([]Value, len(n.arr))
		for i := range n.arr {
			out[i] = zero(u.Elem())
			p.jsonAssign(&out[i], u.Elem(), n.arr[i])
		}
		*dst = Slice{A: out}
	case *types.Array:
		if n.kind != 'a' {
			return
		}
		a := (*dst).(Array)
		for i := range a {
			if i < len(n.arr) {
				p.jsonAssign(&a[i], u.Elem(), n.arr[i])
			}
		}
	case *types.Map:
		if n.kind != 'o' {
			return
		}
		m, _ := (*dst).(*Map)
		if m == nil {
			m = newMap(u.Key(), u.Elem())
			*dst = m
		}
		for i, k := range n.keys {
			v := zero(u.Elem())
			p.jsonAssign(&v, u.Elem(), n.vals[i])
			p.mapStore(m, mkStr(append([]Value(nil), k...)), v)
		}
	case *types.Pointer:
		ptr, _ := (*dst).(*Value)
		if ptr == nil {
			ptr = new(Value)
			*ptr = zero(u.Elem())
			*dst = ptr
		}
		p.jsonAssign(ptr, u.Elem(), n)
	default:
		panic(unsupported("JSON text layer: decoding into %v", t))
	}
}

func (p *Path) jsonMarshalText(v Value, t types.Type, indent bool, prefix, ind string) []Value {
	e := &jsonEnc{p: p, indent: indent, prefix: prefix, ind: ind}
	e.value(v, t, 0)
	return e.out
}

// jsonUnmarshalText parses text into dst; a syntax error leaves dst untouched.
func (p *Path) jsonUnmarshalText(data []Value, dst *Value, t types.Type) (errv Value) {
	var root *jnode
	func() {
		defer func() {
			if r := recover(); r != nil {
				if se, ok := r.(jsonSyntaxError); ok {
					errv = Iface{T: nativeErrorType, V: &errVal{msg: se.msg}}
					return
				}
				panic(r)
			}
		}()
		jp := &jsonParser{p: p, d: data}
		root = jp.value()
		jp.ws()
		if jp.pos != len(jp.d) {
			jp.fail("invalid character after top-level value")
		}
	}()
	if errv != nil {
		return errv
	}
	p.jsonAssign(dst, t, root)
	return Iface{}
}
