package main

import (
	"os"
	"strings"
)

// fpOfInt / intOfFP: IEEE-754 mode is not implemented; symbolic floats exist only
// in the explicitly named real-arithmetic abstraction (vRealMode).
func (p *Path) fpOfInt(c *Term, si intInfo) Value {
	panic(unsupported("int->float64 conversion of a symbolic integer outside real mode"))
}

func (p *Path) intOfFP(c *Term, di intInfo) Value {
	if !p.realMode || c.S.K != SReal {
		panic(unsupported("float64->int conversion of a symbolic float"))
	}
	return termOrInt(p.tt().RealToBV(c, di.W), di)
}

// harnessAnnotations collects `// verif:<key> text` lines from the harness files.
func harnessAnnotations(e *Engine, key string) []string {
	var out []string
	seen := map[string]bool{}
	for _, files := range e.harnessFiles {
		for _, f := range files {
			b, _ := os.ReadFile(f)
			for _, l := range strings.Split(string(b), "\n") {
				l = strings.TrimSpace(l)
				pre := "// verif:" + key + " "
				if strings.HasPrefix(l, pre) {
					t := strings.TrimPrefix(l, pre)
					if !seen[t] {
						seen[t] = true
						out = append(out, t)
					}
				}
			}
		}
	}
	return out
}

var curEngine *Engine

func boundsOf(prop, tier string) []string { return harnessAnnotations(curEngine, "bound") }

func assumptionsOf(prop string) []string {
	base := []string{
		"go/packages, go/types, go/ssa build the SSA faithfully; the engine's interpreter, term simplifier and stdlib models are trusted (models are differentially self-tested, counterexamples are replayed natively)",
		"all text is ASCII; a feasible byte >= 0x80 in a rune conversion ends the path as UNSUPPORTED",
		"append growth follows runtime.growslice without size-class rounding",
		"z3 4.8.12 answers are trusted; any (error line or unknown makes the check INCONCLUSIVE",
	}
	return append(base, harnessAnnotations(curEngine, "assume")...)
}
