package main

// Symbolic regular-expression matching: a backtracking interpreter
// (leftmost-first, Go/Perl semantics) over the regexp/syntax.Prog that the real
// regexp/syntax package compiles from the pattern found in the source.  Rune
// tests against symbolic bytes are path decisions.  Used only when the subject
// is not fully concrete; ASCII only.

import (
	"fmt"
	"regexp"
	"regexp/syntax"
	"sync"

	"golang.org/x/tools/go/ssa"
)

var reProgCache sync.Map // pattern -> *syntax.Prog

func compileProg(pattern string) *syntax.Prog {
	if p, ok := reProgCache.Load(pattern); ok {
		return p.(*syntax.Prog)
	}
	re, err := syntax.Parse(pattern, syntax.Perl)
	if err != nil {
		panic(unsupported("regexp %q does not parse: %v", pattern, err))
	}
	prog, err := syntax.Compile(re.Simplify())
	if err != nil {
		panic(unsupported("regexp %q does not compile: %v", pattern, err))
	}
	reProgCache.Store(pattern, prog)
	return prog
}

// runeTest: is byte b matched by instruction i (bool or term)?
func (p *Path) runeTest(i *syntax.Inst, b Value) Value {
	tt := p.tt()
	fold := syntax.Flags(i.Arg)&syntax.FoldCase != 0
	switch i.Op {
	case syntax.InstRuneAny:
		return true
	case syntax.InstRuneAnyNotNL:
		return p.boolNot(p.equalsByte(b, '\n'))
	}
	// InstRune / InstRune1: ranges in i.Rune (pairs), or a single rune
	type rg struct{ lo, hi rune }
	var ranges []rg
	if len(i.Rune) == 1 {
		ranges = append(ranges, rg{i.Rune[0], i.Rune[0]})
		if fold {
			for r := simpleFold(i.Rune[0]); r != i.Rune[0]; r = simpleFold(r) {
				ranges = append(ranges, rg{r, r})
			}
		}
	} else {
		for k := 0; k+1 < len(i.Rune); k += 2 {
			ranges = append(ranges, rg{i.Rune[k], i.Rune[k+1]})
		}
	}
	switch x := b.(type) {
	case int64:
		for _, r := range ranges {
			if rune(x) >= r.lo && rune(x) <= r.hi {
				return true
			}
		}
		return false
	case *Term:
		var alts []*Term
		for _, r := range ranges {
			if r.lo > 255 {
				continue
			}
			hi := r.hi
			if hi > 255 {
				hi = 255
			}
			if r.lo == hi {
				alts = append(alts, tt.Eq(x, tt.Const(BV(8), uint64(r.lo))))
			} else {
				alts = append(alts, tt.And(tt.Cmp(OpUle, tt.Const(BV(8), uint64(r.lo)), x), tt.Cmp(OpUle, x, tt.Const(BV(8), uint64(hi)))))
			}
		}
		return termOrBool(tt.Or(alts...))
	}
	panic("runeTest")
}

func simpleFold(r rune) rune {
	if r >= 'a' && r <= 'z' {
		return r - 32
	}
	if r >= 'A' && r <= 'Z' {
		return r + 32
	}
	return r
}

func (p *Path) equalsByte(b Value, c byte) Value {
	switch x := b.(type) {
	case int64:
		return x == int64(c)
	case *Term:
		return termOrBool(p.tt().Eq(x, p.tt().Const(BV(8), uint64(c))))
	}
	panic("equalsByte")
}

// reMatchFrom runs the program at a fixed start position and returns the end of
// the highest-priority match, or -1.
func (p *Path) reMatchFrom(prog *syntax.Prog, s []Value, start int) int {
	e, _ := p.reMatchCaps(prog, s, start)
	return e
}

// reMatchCaps is reMatchFrom that also reports the capture positions of the match.
func (p *Path) reMatchCaps(prog *syntax.Prog, s []Value, start int) (int, []int) {
	type key struct{ pc, pos int }
	visited := map[key]bool{}
	caps := make([]int, prog.NumCap)
	for i := range caps {
		caps[i] = -1
	}
	var best []int
	var run func(pc, pos int) int
	run = func(pc, pos int) int {
		for {
			p.step()
			k := key{pc, pos}
			i := &prog.Inst[pc]
			switch i.Op {
			case syntax.InstFail:
				return -1
			case syntax.InstMatch:
				best = append([]int(nil), caps...)
				return pos
			case syntax.InstNop:
				pc = int(i.Out)
			case syntax.InstCapture:
				if int(i.Arg) < len(caps) {
					old := caps[i.Arg]
					caps[i.Arg] = pos
					if r := run(int(i.Out), pos); r >= 0 {
						return r
					}
					caps[i.Arg] = old
					return -1
				}
				pc = int(i.Out)
			case syntax.InstAlt, syntax.InstAltMatch:
				if visited[k] {
					return -1
				}
				visited[k] = true
				if r := run(int(i.Out), pos); r >= 0 {
					return r
				}
				pc = int(i.Arg)
			case syntax.InstEmptyWidth:
				op := syntax.EmptyOp(i.Arg)
				ok := true
				if op&syntax.EmptyBeginText != 0 && pos != 0 {
					ok = false
				}
				if op&syntax.EmptyEndText != 0 && pos != len(s) {
					ok = false
				}
				if op&syntax.EmptyBeginLine != 0 && pos != 0 {
					if !p.decideVal(p.equalsByte(s[pos-1], '\n')) {
						ok = false
					}
				}
				if op&syntax.EmptyEndLine != 0 && pos != len(s) {
					if !p.decideVal(p.equalsByte(s[pos], '\n')) {
						ok = false
					}
				}
				if op&(syntax.EmptyWordBoundary|syntax.EmptyNoWordBoundary) != 0 {
					panic(unsupported("\\b in a regexp on a symbolic subject"))
				}
				if !ok {
					return -1
				}
				pc = int(i.Out)
			case syntax.InstRune, syntax.InstRune1, syntax.InstRuneAny, syntax.InstRuneAnyNotNL:
				if pos >= len(s) {
					return -1
				}
				if c, ok := s[pos].(int64); ok && c >= 0x80 {
					panic(unsupported("non-ASCII byte in a regexp subject"))
				}
				if !p.decideVal(p.runeTest(i, s[pos])) {
					return -1
				}
				pos++
				pc = int(i.Out)
			default:
				panic(unsupported("regexp instruction %v", i.Op))
			}
		}
	}
	e := run(prog.Start, start)
	return e, best
}

// reFind returns the leftmost-first match at or after from: [start,end] or nil.
func (p *Path) reFind(prog *syntax.Prog, s []Value, from int) []int {
	anchored := prog.StartCond()&syntax.EmptyBeginText != 0
	for st := from; st <= len(s); st++ {
		if e := p.reMatchFrom(prog, s, st); e >= 0 {
			return []int{st, e}
		}
		if anchored {
			break
		}
	}
	return nil
}

// reFindAll follows regexp.(*Regexp).allMatches.
func (p *Path) reFindAll(prog *syntax.Prog, s []Value, n int) [][]int {
	if n < 0 {
		n = len(s) + 1
	}
	var out [][]int
	end := len(s)
	for pos, i, prevMatchEnd := 0, 0, -1; i < n && pos <= end; {
		m := p.reFind(prog, s, pos)
		if m == nil {
			break
		}
		accept := true
		if m[1] == pos {
			if m[0] == prevMatchEnd {
				accept = false
			}
			if pos < end {
				pos++
			} else {
				pos = end + 1
			}
		} else {
			pos = m[1]
		}
		prevMatchEnd = m[1]
		if accept {
			out = append(out, m)
			i++
		}
	}
	return out
}

// reReplaceAll: non-overlapping matches replaced by the template ($N / ${N} expand to captures).
func (p *Path) reReplaceAll(prog *syntax.Prog, s []Value, repl string) []Value {
	var out []Value
	last := 0
	pos := 0
	prevEnd := -1
	for pos <= len(s) {
		var m []int
		var caps []int
		for st := pos; st <= len(s); st++ {
			if e, c := p.reMatchCaps(prog, s, st); e >= 0 {
				m, caps = []int{st, e}, c
				break
			}
		}
		if m == nil {
			break
		}
		if m[1] == m[0] && m[0] == prevEnd {
			// empty match adjacent to the previous match: skip
			pos = m[1] + 1
			continue
		}
		out = append(out, s[last:m[0]]...)
		for i := 0; i < len(repl); i++ {
			if repl[i] == '$' && i+1 < len(repl) {
				j := i + 1
				brace := repl[j] == '{'
				if brace {
					j++
				}
				k := j
				for k < len(repl) && repl[k] >= '0' && repl[k] <= '9' {
					k++
				}
				if k > j && (!brace || (k < len(repl) && repl[k] == '}')) {
					n := 0
					for _, d := range repl[j:k] {
						n = n*10 + int(d-'0')
					}
					if 2*n+1 < len(caps) && caps[2*n] >= 0 && caps[2*n+1] >= 0 {
						out = append(out, s[caps[2*n]:caps[2*n+1]]...)
					} else if n == 0 {
						out = append(out, s[m[0]:m[1]]...)
					}
					i = k - 1
					if brace {
						i = k
					}
					continue
				}
				if repl[j] == '$' {
					out = append(out, int64('$'))
					i = j
					continue
				}
				panic(unsupported("regexp replacement template %q", repl))
			}
			out = append(out, int64(repl[i]))
		}
		last = m[1]
		prevEnd = m[1]
		if m[1] > m[0] {
			pos = m[1]
		} else {
			pos = m[1] + 1
		}
	}
	return append(out, s[last:]...)
}

func nativeRegexp(v Value) *regexp.Regexp {
	n, ok := v.(*Native)
	if !ok || n == nil {
		panic(goPanic{msg: "runtime error: invalid memory address or nil pointer dereference (nil *regexp.Regexp)"})
	}
	return n.V.(*regexp.Regexp)
}

func subjectBytes(v Value) []Value {
	switch x := v.(type) {
	case string, *SymStr:
		return strBytes(x)
	case Slice:
		return x.A
	}
	panic(fmt.Sprintf("regexp subject %T", v))
}

func isConcreteSubject(v Value) bool {
	switch x := v.(type) {
	case string:
		return true
	case *SymStr:
		return false
	case Slice:
		for _, b := range x.A {
			if _, ok := b.(int64); !ok {
				return false
			}
		}
		return true
	}
	return false
}

func init() {
	sym := func(name string, f func(p *Path, re *regexp.Regexp, prog *syntax.Prog, a []Value) Value) {
		models[name] = func(p *Path, fn *ssa.Function, a []Value) Value {
			if isConcreteSubject(a[1]) && !forceModels {
				if r, ok := p.callNative(name, natives[name], fn, a); ok {
					return r
				}
			}
			re := nativeRegexp(a[0])
			p.modelsHit["symbolic regexp matcher: "+re.String()] = true
			return f(p, re, compileProg(re.String()), a)
		}
	}
	idxSlice := func(m []int) Value {
		if m == nil {
			return Slice{}
		}
		return Slice{A: []Value{int64(m[0]), int64(m[1])}}
	}
	sym("(*regexp.Regexp).FindAllStringIndex", func(p *Path, re *regexp.Regexp, prog *syntax.Prog, a []Value) Value {
		ms := p.reFindAll(prog, subjectBytes(a[1]), int(concreteInt(a[2], "FindAll n")))
		if ms == nil {
			return Slice{}
		}
		out := make([]Value, len(ms))
		for i, m := range ms {
			out[i] = idxSlice(m)
		}
		return Slice{A: out}
	})
	sym("(*regexp.Regexp).FindStringIndex", func(p *Path, re *regexp.Regexp, prog *syntax.Prog, a []Value) Value {
		return idxSlice(p.reFind(prog, subjectBytes(a[1]), 0))
	})
	sym("(*regexp.Regexp).FindString", func(p *Path, re *regexp.Regexp, prog *syntax.Prog, a []Value) Value {
		m := p.reFind(prog, subjectBytes(a[1]), 0)
		if m == nil {
			return ""
		}
		return strSlice(a[1], m[0], m[1])
	})
	sym("(*regexp.Regexp).Find", func(p *Path, re *regexp.Regexp, prog *syntax.Prog, a []Value) Value {
		s := subjectBytes(a[1])
		m := p.reFind(prog, s, 0)
		if m == nil {
			return Slice{}
		}
		return Slice{A: append(make([]Value, 0, m[1]-m[0]), s[m[0]:m[1]]...)}
	})
	sym("(*regexp.Regexp).MatchString", func(p *Path, re *regexp.Regexp, prog *syntax.Prog, a []Value) Value {
		return p.reFind(prog, subjectBytes(a[1]), 0) != nil
	})
	sym("(*regexp.Regexp).Match", func(p *Path, re *regexp.Regexp, prog *syntax.Prog, a []Value) Value {
		return p.reFind(prog, subjectBytes(a[1]), 0) != nil
	})
	sym("(*regexp.Regexp).ReplaceAllString", func(p *Path, re *regexp.Regexp, prog *syntax.Prog, a []Value) Value {
		repl := concreteString(a[2], "ReplaceAllString replacement")
		return mkStr(p.reReplaceAll(prog, subjectBytes(a[1]), repl))
	})
	sym("(*regexp.Regexp).ReplaceAll", func(p *Path, re *regexp.Regexp, prog *syntax.Prog, a []Value) Value {
		rs := a[2].(Slice)
		rb := make([]byte, len(rs.A))
		for i, x := range rs.A {
			c, ok := x.(int64)
			if !ok {
				panic(unsupported("ReplaceAll with a symbolic replacement"))
			}
			rb[i] = byte(c)
		}
		out := p.reReplaceAll(prog, subjectBytes(a[1]), string(rb))
		return Slice{A: out}
	})
}
