package main

// Operators and conversions, dispatched on the static operand type.

import (
	"fmt"
	"go/token"
	"go/types"
	"math"
)

func (p *Path) goPanicf(format string, a ...interface{}) {
	msg := fmt.Sprintf(format, a...)
	panic(goPanic{v: Iface{T: runtimeErrorType, V: msg}, msg: msg})
}

// strEqTerm builds the equality of two strings of concrete lengths.
func (p *Path) strEq(a, b Value) Value {
	as, aok := a.(string)
	bs, bok := b.(string)
	if aok && bok {
		return as == bs
	}
	if strLen(a) != strLen(b) {
		return false
	}
	tt := p.tt()
	x, y := strBytes(a), strBytes(b)
	var cs []*Term
	digestPairs := map[[2]int]bool{}
	for i := range x {
		xc, xok := x[i].(int64)
		yc, yok := y[i].(int64)
		if xok && yok {
			if xc != yc {
				return false
			}
			continue
		}
		// hex digits of blake3 digests: under the stated collision-freeness assumption
		// H(u) = H(v) <=> u = v, and digests of inputs of different length differ
		if h1, l1, ok1 := digestNibble(x[i]); ok1 {
			if h2, l2, ok2 := digestNibble(y[i]); ok2 && l1 == l2 {
				if h1 == h2 {
					continue
				}
				if h1.Name != h2.Name {
					return false
				}
				k := [2]int{h1.ID, h2.ID}
				if !digestPairs[k] {
					digestPairs[k] = true
					p.stubsHit["blake3 digests compared under assumed collision-freeness (H(u)=H(v) <=> u=v)"] = true
					for j := range h1.Args {
						e := tt.Eq(h1.Args[j], h2.Args[j])
						if e.IsConst() {
							if e.C == 0 {
								return false
							}
							continue
						}
						cs = append(cs, e)
					}
				}
				continue
			}
		}
		e := tt.Eq(p.byteTerm(x[i]), p.byteTerm(y[i]))
		if e.IsConst() {
			if e.C == 0 {
				return false
			}
			continue
		}
		cs = append(cs, e)
	}
	r := tt.And(cs...)
	if r.IsConst() {
		return r.C != 0
	}
	return r
}

// strLess builds a < b (strict) or a <= b lexicographically (unsigned bytes, Go semantics).
func (p *Path) strLess(a, b Value, orEqual bool) Value {
	as, aok := a.(string)
	bs, bok := b.(string)
	if aok && bok {
		if orEqual {
			return as <= bs
		}
		return as < bs
	}
	tt := p.tt()
	x, y := strBytes(a), strBytes(b)
	n := len(x)
	if len(y) < n {
		n = len(y)
	}
	// tail value when the common prefix is equal
	var acc *Term
	if len(x) < len(y) {
		acc = tt.True
	} else if len(x) > len(y) {
		acc = tt.False
	} else {
		acc = tt.Bool(orEqual)
	}
	for i := n - 1; i >= 0; i-- {
		xt, yt := p.byteTerm(x[i]), p.byteTerm(y[i])
		lt := tt.node(OpUlt, BoolSort, xt, yt)
		if xt == yt {
			lt = tt.False
		}
		eq := tt.Eq(xt, yt)
		acc = tt.Or(lt, tt.And(eq, acc))
	}
	if acc.IsConst() {
		return acc.C != 0
	}
	return acc
}

func (p *Path) boolNot(v Value) Value {
	switch x := v.(type) {
	case bool:
		return !x
	case *Term:
		r := p.tt().Not(x)
		if r.IsConst() {
			return r.C != 0
		}
		return r
	}
	panic(fmt.Sprintf("boolNot %T", v))
}

func termOrBool(t *Term) Value {
	if t.IsConst() && t.S.K == SBool {
		return t.C != 0
	}
	return t
}

func termOrInt(t *Term, ii intInfo) Value {
	if t.IsConst() {
		if ii.Signed {
			return sext(t.C, ii.W)
		}
		return int64(t.C)
	}
	return t
}

func (p *Path) binop(op token.Token, t types.Type, x, y Value, yt types.Type) Value {
	// interface / pointer / etc equality first
	switch op {
	case token.EQL:
		return p.equals(t, x, y)
	case token.NEQ:
		return p.boolNot(p.equals(t, x, y))
	}
	if isString(t) {
		switch op {
		case token.ADD:
			return strConcat(x, y)
		case token.LSS:
			return p.strLess(x, y, false)
		case token.LEQ:
			return p.strLess(x, y, true)
		case token.GTR:
			return p.strLess(y, x, false)
		case token.GEQ:
			return p.strLess(y, x, true)
		}
		panic(fmt.Sprintf("string binop %v", op))
	}
	if isFloat(t) {
		return p.floatBinop(op, x, y)
	}
	ii, ok := intInfoOf(t)
	if !ok {
		panic(unsupported("binop %v on type %v", op, t))
	}
	xc, xok := x.(int64)
	yc, yok := y.(int64)
	if xok && yok {
		return p.intBinopConcrete(op, ii, xc, yc, yt)
	}
	tt := p.tt()
	xt := p.toTerm(x, t)
	var ytm *Term
	if op == token.SHL || op == token.SHR {
		yi, _ := intInfoOf(yt)
		ytm = p.toTerm(y, yt)
		if yi.W < ii.W {
			ytm = tt.Zext(ytm, ii.W)
		} else if yi.W > ii.W {
			panic(unsupported("symbolic shift with wider count"))
		}
	} else {
		ytm = p.toTerm(y, t)
	}
	switch op {
	case token.ADD:
		return termOrInt(tt.Bin(OpAdd, xt, ytm), ii)
	case token.SUB:
		return termOrInt(tt.Bin(OpSub, xt, ytm), ii)
	case token.MUL:
		return termOrInt(tt.Bin(OpMul, xt, ytm), ii)
	case token.QUO, token.REM:
		if p.Decide(tt.Eq(ytm, tt.Const(ytm.S, 0))) {
			p.goPanicf("runtime error: integer divide by zero")
		}
		var o Op
		switch {
		case op == token.QUO && ii.Signed:
			o = OpSdiv
		case op == token.QUO:
			o = OpUdiv
		case ii.Signed:
			o = OpSrem
		default:
			o = OpUrem
		}
		return termOrInt(tt.Bin(o, xt, ytm), ii)
	case token.AND:
		return termOrInt(tt.Bin(OpBAnd, xt, ytm), ii)
	case token.OR:
		return termOrInt(tt.Bin(OpBOr, xt, ytm), ii)
	case token.XOR:
		return termOrInt(tt.Bin(OpBXor, xt, ytm), ii)
	case token.AND_NOT:
		return termOrInt(tt.Bin(OpBAnd, xt, tt.Un(OpBNot, ytm)), ii)
	case token.SHL:
		return termOrInt(tt.Bin(OpShl, xt, ytm), ii)
	case token.SHR:
		if ii.Signed {
			return termOrInt(tt.Bin(OpAshr, xt, ytm), ii)
		}
		return termOrInt(tt.Bin(OpLshr, xt, ytm), ii)
	case token.LSS:
		if ii.Signed {
			return termOrBool(tt.Cmp(OpSlt, xt, ytm))
		}
		return termOrBool(tt.Cmp(OpUlt, xt, ytm))
	case token.LEQ:
		if ii.Signed {
			return termOrBool(tt.Cmp(OpSle, xt, ytm))
		}
		return termOrBool(tt.Cmp(OpUle, xt, ytm))
	case token.GTR:
		if ii.Signed {
			return termOrBool(tt.Cmp(OpSlt, ytm, xt))
		}
		return termOrBool(tt.Cmp(OpUlt, ytm, xt))
	case token.GEQ:
		if ii.Signed {
			return termOrBool(tt.Cmp(OpSle, ytm, xt))
		}
		return termOrBool(tt.Cmp(OpUle, ytm, xt))
	}
	panic(fmt.Sprintf("int binop %v", op))
}

func (p *Path) intBinopConcrete(op token.Token, ii intInfo, x, y int64, yt types.Type) Value {
	ux, uy := uint64(x), uint64(y)
	switch op {
	case token.ADD:
		return normInt(x+y, ii)
	case token.SUB:
		return normInt(x-y, ii)
	case token.MUL:
		return normInt(x*y, ii)
	case token.QUO:
		if y == 0 {
			p.goPanicf("runtime error: integer divide by zero")
		}
		if ii.Signed {
			if y == -1 {
				return normInt(-x, ii)
			}
			return normInt(x/y, ii)
		}
		return normInt(int64(ux/uy), ii)
	case token.REM:
		if y == 0 {
			p.goPanicf("runtime error: integer divide by zero")
		}
		if ii.Signed {
			if y == -1 {
				return int64(0)
			}
			return normInt(x%y, ii)
		}
		return normInt(int64(ux%uy), ii)
	case token.AND:
		return x & y
	case token.OR:
		return x | y
	case token.XOR:
		return normInt(x^y, ii)
	case token.AND_NOT:
		return x &^ y
	case token.SHL:
		yi, _ := intInfoOf(yt)
		if yi.Signed && y < 0 {
			p.goPanicf("runtime error: negative shift amount")
		}
		if uy >= uint64(ii.W) {
			return int64(0)
		}
		return normInt(x<<uy, ii)
	case token.SHR:
		yi, _ := intInfoOf(yt)
		if yi.Signed && y < 0 {
			p.goPanicf("runtime error: negative shift amount")
		}
		if ii.Signed {
			if uy >= 64 {
				uy = 63
			}
			return normInt(x>>uy, ii)
		}
		if uy >= 64 {
			return int64(0)
		}
		return normInt(int64(ux>>uy), ii)
	case token.LSS:
		if ii.Signed {
			return x < y
		}
		return ux < uy
	case token.LEQ:
		if ii.Signed {
			return x <= y
		}
		return ux <= uy
	case token.GTR:
		if ii.Signed {
			return x > y
		}
		return ux > uy
	case token.GEQ:
		if ii.Signed {
			return x >= y
		}
		return ux >= uy
	}
	panic(fmt.Sprintf("intBinopConcrete %v", op))
}

func (p *Path) floatBinop(op token.Token, x, y Value) Value {
	xf, xok := x.(float64)
	yf, yok := y.(float64)
	if xok && yok && p.realMode && !math.IsNaN(xf) && !math.IsNaN(yf) && !math.IsInf(xf, 0) && !math.IsInf(yf, 0) {
		// real mode: concrete operands are exact rationals too, so that concrete and
		// symbolic computations of the same formula agree
		xok, yok = false, false
	}
	if xok && yok {
		switch op {
		case token.ADD:
			return xf + yf
		case token.SUB:
			return xf - yf
		case token.MUL:
			return xf * yf
		case token.QUO:
			return xf / yf
		case token.LSS:
			return xf < yf
		case token.LEQ:
			return xf <= yf
		case token.GTR:
			return xf > yf
		case token.GEQ:
			return xf >= yf
		}
		panic(fmt.Sprintf("float binop %v", op))
	}
	if !p.realMode {
		panic(unsupported("symbolic float64 arithmetic outside real mode"))
	}
	for _, v := range []Value{x, y} {
		if f, ok := v.(float64); ok && (math.IsNaN(f) || math.IsInf(f, 0)) {
			panic(unsupported("NaN/Inf combined with a symbolic float in real mode"))
		}
	}
	tt := p.tt()
	xt := p.toTerm(x, types.Typ[types.Float64])
	yt := p.toTerm(y, types.Typ[types.Float64])
	switch op {
	case token.ADD:
		return tt.RBin(OpRAdd, xt, yt)
	case token.SUB:
		return tt.RBin(OpRSub, xt, yt)
	case token.MUL:
		return tt.RBin(OpRMul, xt, yt)
	case token.QUO:
		// IEEE semantics of division by zero, decided on the path: x/0 is NaN or +-Inf
		zero := tt.RConstF(0)
		if p.Decide(tt.Eq(yt, zero)) {
			if p.Decide(tt.Eq(xt, zero)) {
				return math.NaN()
			}
			if p.Decide(tt.Cmp(OpRLt, zero, xt)) {
				return math.Inf(1)
			}
			return math.Inf(-1)
		}
		return tt.RBin(OpRDiv, xt, yt)
	case token.LSS:
		return termOrBool(tt.Cmp(OpRLt, xt, yt))
	case token.LEQ:
		return termOrBool(tt.Cmp(OpRLe, xt, yt))
	case token.GTR:
		return termOrBool(tt.Cmp(OpRLt, yt, xt))
	case token.GEQ:
		return termOrBool(tt.Cmp(OpRLe, yt, xt))
	}
	panic(fmt.Sprintf("float binop %v", op))
}

// equals implements == for a static type; result bool or *Term.
func (p *Path) equals(t types.Type, x, y Value) Value {
	tt := p.tt()
	switch ut := t.Underlying().(type) {
	case *types.Basic:
		switch {
		case ut.Info()&types.IsString != 0:
			return p.strEq(x, y)
		case ut.Info()&types.IsBoolean != 0:
			xb, xok := x.(bool)
			yb, yok := y.(bool)
			if xok && yok {
				return xb == yb
			}
			return termOrBool(tt.Eq(p.toTerm(x, t), p.toTerm(y, t)))
		case ut.Info()&types.IsInteger != 0:
			xi, xok := x.(int64)
			yi, yok := y.(int64)
			if xok && yok {
				return xi == yi
			}
			return termOrBool(tt.Eq(p.toTerm(x, t), p.toTerm(y, t)))
		case ut.Info()&types.IsFloat != 0:
			xf, xok := x.(float64)
			yf, yok := y.(float64)
			if xok && yok {
				return xf == yf
			}
			return termOrBool(tt.Eq(p.toTerm(x, t), p.toTerm(y, t)))
		case ut.Kind() == types.UnsafePointer:
			return x == y
		case ut.Kind() == types.UntypedNil:
			return true
		}
	case *types.Pointer:
		xp, _ := x.(*Value)
		yp, _ := y.(*Value)
		return xp == yp
	case *types.Struct:
		xs, ys := x.(Struct), y.(Struct)
		var acc Value = true
		for i := range xs {
			if ut.Field(i).Name() == "_" {
				continue
			}
			acc = p.boolAnd(acc, p.equals(ut.Field(i).Type(), xs[i], ys[i]))
		}
		return acc
	case *types.Array:
		xs, ys := x.(Array), y.(Array)
		var acc Value = true
		for i := range xs {
			acc = p.boolAnd(acc, p.equals(ut.Elem(), xs[i], ys[i]))
		}
		return acc
	case *types.Interface:
		xi, _ := x.(Iface)
		yi, _ := y.(Iface)
		if xi.T == nil || yi.T == nil {
			return xi.T == nil && yi.T == nil
		}
		if !types.Identical(xi.T, yi.T) {
			return false
		}
		if xi.T == nativeErrorType {
			return xi.V == yi.V
		}
		return p.equals(xi.T, xi.V, yi.V)
	case *types.Map:
		xm, _ := x.(*Map)
		ym, _ := y.(*Map)
		return xm == ym
	case *types.Chan:
		xm, _ := x.(*Chan)
		ym, _ := y.(*Chan)
		return xm == ym
	case *types.Slice:
		// only comparison with nil is legal
		xs, _ := x.(Slice)
		ys, _ := y.(Slice)
		return xs.A == nil && ys.A == nil
	case *types.Signature:
		return isNilFunc(x) && isNilFunc(y)
	}
	panic(unsupported("comparison of type %v", t))
}

func isNilFunc(v Value) bool {
	switch f := v.(type) {
	case nil:
		return true
	case *Closure:
		return f == nil
	}
	return false
}

func (p *Path) boolAnd(a, b Value) Value {
	ab, aok := a.(bool)
	bb, bok := b.(bool)
	if aok && !ab || bok && !bb {
		return false
	}
	if aok && bok {
		return ab && bb
	}
	if aok {
		return b
	}
	if bok {
		return a
	}
	return termOrBool(p.tt().And(a.(*Term), b.(*Term)))
}

func (p *Path) boolOr(a, b Value) Value {
	ab, aok := a.(bool)
	bb, bok := b.(bool)
	if aok && ab || bok && bb {
		return true
	}
	if aok && bok {
		return ab || bb
	}
	if aok {
		return b
	}
	if bok {
		return a
	}
	return termOrBool(p.tt().Or(a.(*Term), b.(*Term)))
}

func (p *Path) unop(op token.Token, t types.Type, x Value) Value {
	switch op {
	case token.NOT:
		return p.boolNot(x)
	case token.SUB:
		if isFloat(t) {
			if f, ok := x.(float64); ok {
				return -f
			}
			return p.tt().RNeg(x.(*Term))
		}
		ii, _ := intInfoOf(t)
		if c, ok := x.(int64); ok {
			return normInt(-c, ii)
		}
		return termOrInt(p.tt().Un(OpNeg, x.(*Term)), ii)
	case token.XOR:
		ii, _ := intInfoOf(t)
		if c, ok := x.(int64); ok {
			return normInt(^c, ii)
		}
		return termOrInt(p.tt().Un(OpBNot, x.(*Term)), ii)
	}
	panic(fmt.Sprintf("unop %v", op))
}

// runeToBytes encodes a concrete rune as UTF-8.
func runeBytes(r int64) []Value {
	s := string(rune(r))
	return strBytes(s)
}

// asciiByteOfRune turns a (possibly symbolic) rune into a single byte, which is
// only legal if the rune is provably < 0x80.
func (p *Path) asciiByteOfRune(r Value, what string) []Value {
	switch x := r.(type) {
	case int64:
		return runeBytes(x)
	case *Term:
		tt := p.tt()
		ge := tt.Not(tt.Cmp(OpUlt, x, tt.Const(x.S, 0x80)))
		if p.Decide(ge) {
			panic(unsupported("non-ASCII rune in %s (outside the ASCII-only claim)", what))
		}
		return []Value{termOrInt(tt.Extract(x, 7, 0), intInfo{8, false})}
	}
	panic(fmt.Sprintf("asciiByteOfRune %T", r))
}

// runeOfByte widens a string byte to a rune under the ASCII assumption.
func (p *Path) runeOfByte(b Value, what string) Value {
	switch x := b.(type) {
	case int64:
		if x >= 0x80 {
			panic(unsupported("non-ASCII byte in %s (outside the ASCII-only claim)", what))
		}
		return x
	case *Term:
		tt := p.tt()
		ge := tt.Not(tt.Cmp(OpUlt, x, tt.Const(BV(8), 0x80)))
		if p.Decide(ge) {
			panic(unsupported("non-ASCII byte in %s (outside the ASCII-only claim)", what))
		}
		return tt.Zext(x, 32)
	}
	panic(fmt.Sprintf("runeOfByte %T", b))
}

func (p *Path) conv(dst, src types.Type, x Value) Value {
	ud, us := dst.Underlying(), src.Underlying()
	switch us := us.(type) {
	case *types.Pointer:
		if _, ok := ud.(*types.Pointer); ok {
			return x
		}
		if b, ok := ud.(*types.Basic); ok && b.Kind() == types.UnsafePointer {
			panic(unsupported("unsafe.Pointer conversion"))
		}
	case *types.Slice:
		// []byte / []rune -> string
		if isString(dst) {
			sl := x.(Slice)
			eb := basicOf(us.Elem())
			if eb != nil && eb.Kind() == types.Uint8 {
				return mkStr(append([]Value(nil), sl.A...))
			}
			if eb != nil && eb.Kind() == types.Int32 {
				var out []Value
				for _, r := range sl.A {
					out = append(out, p.asciiByteOfRune(r, "string([]rune)")...)
				}
				return mkStr(out)
			}
		}
		if _, ok := ud.(*types.Slice); ok {
			return x
		}
	case *types.Basic:
		if isString(src) {
			if isString(dst) {
				return x
			}
			if sd, ok := ud.(*types.Slice); ok {
				eb := basicOf(sd.Elem())
				if eb.Kind() == types.Uint8 {
					bs := strBytes(x)
					return Slice{A: append(make([]Value, 0, len(bs)), bs...)}
				}
				if eb.Kind() == types.Int32 {
					bs := strBytes(x)
					out := make([]Value, 0, len(bs))
					if s, ok := x.(string); ok {
						for _, r := range s {
							out = append(out, int64(r))
						}
					} else {
						for _, b := range bs {
							out = append(out, p.runeOfByte(b, "[]rune(string)"))
						}
					}
					return Slice{A: out}
				}
			}
		}
		if si, ok := intInfoOf(src); ok {
			if isString(dst) {
				// string(rune)
				return mkStr(p.asciiByteOfRune(p.convInt(x, si, intInfo{32, true}), "string(rune)"))
			}
			if di, ok := intInfoOf(dst); ok {
				return p.convInt(x, si, di)
			}
			if isFloat(dst) {
				switch c := x.(type) {
				case int64:
					var f float64
					if si.Signed {
						f = float64(c)
					} else {
						f = float64(uint64(c))
					}
					if basicOf(dst).Kind() == types.Float32 {
						f = float64(float32(f))
					}
					return f
				case *Term:
					if !p.realMode {
						return p.fpOfInt(c, si)
					}
					if !si.Signed {
						return p.tt().ToReal(p.tt().Zext(c, c.S.W+1))
					}
					return p.tt().ToReal(c)
				}
			}
		}
		if isFloat(src) {
			if isFloat(dst) {
				if f, ok := x.(float64); ok && basicOf(dst).Kind() == types.Float32 {
					return float64(float32(f))
				}
				return x
			}
			if di, ok := intInfoOf(dst); ok {
				f, ok := x.(float64)
				if !ok {
					return p.intOfFP(x.(*Term), di)
				}
				if math.IsNaN(f) || math.IsInf(f, 0) {
					panic(unsupported("float->int conversion of NaN/Inf"))
				}
				if di.Signed {
					return normInt(int64(f), di)
				}
				return normInt(int64(uint64(f)), di)
			}
		}
		if b, ok := ud.(*types.Basic); ok && b.Kind() == types.UnsafePointer {
			panic(unsupported("unsafe.Pointer conversion"))
		}
	}
	if types.Identical(ud, us) {
		return x
	}
	panic(unsupported("conversion %v -> %v", src, dst))
}

func (p *Path) convInt(x Value, si, di intInfo) Value {
	switch c := x.(type) {
	case int64:
		return normInt(c, di)
	case *Term:
		tt := p.tt()
		var r *Term
		switch {
		case di.W == si.W:
			r = c
		case di.W < si.W:
			r = tt.Extract(c, di.W-1, 0)
		case si.Signed:
			r = tt.Sext(c, di.W)
		default:
			r = tt.Zext(c, di.W)
		}
		return termOrInt(r, di)
	}
	panic(fmt.Sprintf("convInt %T", x))
}
