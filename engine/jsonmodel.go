package main

// encoding/json by contract: Marshal produces an opaque blob holding a snapshot
// of the value together with its static type; Unmarshal walks the REAL struct
// types and tags (go/types) of source and destination: exported fields only,
// `json:"name"`, `json:"-"`, `omitempty`, untagged -> field name, duplicate
// names dropped, case-insensitive matching on decode, nil slices/maps <-> null.
// The JSON text layer (syntax, escaping, UTF-8) is not modelled.

import (
	"go/types"
	"reflect"
	"strings"

	"golang.org/x/tools/go/ssa"
)

type jsonBlob struct {
	v Value
	t types.Type
}

type jsonField struct {
	idx       int
	name      string
	omitempty bool
	t         types.Type
}

// jsonFields lists the fields encoding/json sees for a struct type.
func jsonFields(st *types.Struct) []jsonField {
	var fs []jsonField
	count := map[string]int{}
	for i := 0; i < st.NumFields(); i++ {
		f := st.Field(i)
		if !f.Exported() {
			continue
		}
		if f.Embedded() {
			panic(unsupported("encoding/json contract model: embedded struct field %s", f.Name()))
		}
		tag := reflect.StructTag(st.Tag(i)).Get("json")
		if tag == "-" {
			continue
		}
		name := f.Name()
		omit := false
		if tag != "" {
			parts := strings.Split(tag, ",")
			if parts[0] != "" {
				name = parts[0]
			}
			for _, o := range parts[1:] {
				if o == "omitempty" {
					omit = true
				}
				if o == "string" {
					panic(unsupported("encoding/json contract model: ,string option"))
				}
			}
		}
		fs = append(fs, jsonField{i, name, omit, f.Type()})
		count[name]++
	}
	// Go drops all fields that share a name at the same depth
	var out []jsonField
	for _, f := range fs {
		if count[f.name] == 1 {
			out = append(out, f)
		}
	}
	return out
}

func (p *Path) jsonIsEmpty(v Value, t types.Type) bool {
	switch x := v.(type) {
	case bool:
		return !x
	case int64:
		return x == 0
	case float64:
		return x == 0
	case string:
		return x == ""
	case *SymStr:
		return len(x.B) == 0
	case Slice:
		return len(x.A) == 0
	case *Map:
		return x.Len() == 0
	case *Value:
		return x == nil
	case Iface:
		return x.T == nil
	}
	return false
}

// jsonDecode writes the JSON image of (src, st) into dst of type dt.
func (p *Path) jsonDecode(dst *Value, dt types.Type, src Value, st types.Type) {
	switch du := dt.Underlying().(type) {
	case *types.Basic:
		sb, ok := st.Underlying().(*types.Basic)
		if !ok {
			return
		}
		dk, sk := du.Info(), sb.Info()
		switch {
		case dk&types.IsString != 0 && sk&types.IsString != 0,
			dk&types.IsBoolean != 0 && sk&types.IsBoolean != 0,
			dk&types.IsFloat != 0 && sk&types.IsFloat != 0:
			*dst = src
		case dk&types.IsInteger != 0 && sk&types.IsInteger != 0:
			si, _ := intInfoOf(st)
			di, _ := intInfoOf(dt)
			*dst = p.convInt(src, si, di)
		case dk&types.IsFloat != 0 && sk&types.IsInteger != 0:
			*dst = p.conv(dt, st, src)
		}
	case *types.Struct:
		ss, ok := st.Underlying().(*types.Struct)
		if !ok {
			return
		}
		sv := src.(Struct)
		dv := (*dst).(Struct)
		sfs := jsonFields(ss)
		for _, df := range jsonFields(du) {
			var hit *jsonField
			for i := range sfs {
				if sfs[i].name == df.name {
					hit = &sfs[i]
					break
				}
			}
			if hit == nil {
				for i := range sfs {
					if strings.EqualFold(sfs[i].name, df.name) {
						hit = &sfs[i]
						break
					}
				}
			}
			if hit == nil {
				continue
			}
			if hit.omitempty && p.jsonIsEmpty(sv[hit.idx], hit.t) {
				continue
			}
			p.jsonDecode(&dv[df.idx], df.t, sv[hit.idx], hit.t)
		}
	case *types.Slice:
		ssl, ok := st.Underlying().(*types.Slice)
		if !ok {
			return
		}
		s := src.(Slice)
		if s.A == nil {
			*dst = Slice{} // null
			return
		}
		out := make([]Value, len(s.A))
		for i := range s.A {
			out[i] = zero(du.Elem())
			p.jsonDecode(&out[i], du.Elem(), s.A[i], ssl.Elem())
		}
		*dst = Slice{A: out}
	case *types.Array:
		sa, ok := st.Underlying().(*types.Array)
		if !ok {
			return
		}
		s := src.(Array)
		d := (*dst).(Array)
		for i := range d {
			if i < len(s) {
				p.jsonDecode(&d[i], du.Elem(), s[i], sa.Elem())
			}
		}
	case *types.Map:
		sm, ok := st.Underlying().(*types.Map)
		if !ok {
			return
		}
		if !isString(du.Key()) || !isString(sm.Key()) {
			panic(unsupported("encoding/json contract model: non-string map keys"))
		}
		m, _ := src.(*Map)
		if m == nil {
			*dst = (*Map)(nil) // null
			return
		}
		d, _ := (*dst).(*Map)
		if d == nil {
			d = newMap(du.Key(), du.Elem())
			*dst = d
		}
		for _, e := range m.live() {
			v := zero(du.Elem())
			p.jsonDecode(&v, du.Elem(), e.V, sm.Elem())
			p.mapStore(d, e.K, v)
		}
	case *types.Pointer:
		sp, ok := st.Underlying().(*types.Pointer)
		if !ok {
			return
		}
		s, _ := src.(*Value)
		if s == nil {
			*dst = (*Value)(nil)
			return
		}
		cell := new(Value)
		*cell = zero(du.Elem())
		p.jsonDecode(cell, du.Elem(), *s, sp.Elem())
		*dst = cell
	default:
		panic(unsupported("encoding/json contract model: type %v", dt))
	}
}

func deepCopy(v Value) Value {
	switch x := v.(type) {
	case Struct:
		o := make(Struct, len(x))
		for i := range x {
			o[i] = deepCopy(x[i])
		}
		return o
	case Array:
		o := make(Array, len(x))
		for i := range x {
			o[i] = deepCopy(x[i])
		}
		return o
	case Slice:
		if x.A == nil {
			return Slice{}
		}
		o := make([]Value, len(x.A))
		for i := range x.A {
			o[i] = deepCopy(x.A[i])
		}
		return Slice{A: o}
	case *Map:
		if x == nil {
			return x
		}
		m := newMap(x.KT, x.VT)
		for _, e := range x.live() {
			ne := &mapEntry{K: e.K, V: deepCopy(e.V)}
			m.Entries = append(m.Entries, ne)
			if hk, ok := hashableKey(e.K); ok && !isSymDeep(e.K) {
				m.idx[hk] = ne
			} else {
				m.symKeys = true
			}
		}
		if x.symKeys {
			m.symKeys = true
		}
		return m
	}
	return v // pointers are not followed: json:"-" fields and opaque values
}

func init() {
	marshal := func(p *Path, fn *ssa.Function, a []Value) Value {
		itf := a[0].(Iface)
		if itf.T == nil {
			panic(unsupported("json.Marshal(nil)"))
		}
		if p.jsonText {
			p.stubsHit["encoding/json TEXT layer (encoder/parser written after encoding/json's rules; ASCII, no floats)"] = true
			indent, prefix, ind := false, "", ""
			if len(a) == 3 {
				indent, prefix, ind = true, concreteString(a[1], "MarshalIndent prefix"), concreteString(a[2], "MarshalIndent indent")
			}
			out := p.jsonMarshalText(itf.V, itf.T, indent, prefix, ind)
			return Tuple{Slice{A: out}, Iface{}}
		}
		p.stubsHit["encoding/json (field/tag contract model over the real struct types; no text layer)"] = true
		blob := &jsonBlob{v: deepCopy(itf.V), t: itf.T}
		return Tuple{Slice{A: []Value{&Native{V: blob}}}, Iface{}}
	}
	models["encoding/json.Marshal"] = marshal
	models["encoding/json.MarshalIndent"] = marshal
	models["encoding/json.Unmarshal"] = func(p *Path, fn *ssa.Function, a []Value) Value {
		sl, _ := a[0].(Slice)
		var blob *jsonBlob
		if len(sl.A) == 1 {
			if n, ok := sl.A[0].(*Native); ok {
				blob, _ = n.V.(*jsonBlob)
			}
		}
		if blob == nil {
			// real JSON text
			itf := a[1].(Iface)
			ptr, ok := itf.V.(*Value)
			pt, ok2 := itf.T.Underlying().(*types.Pointer)
			if !ok || !ok2 || ptr == nil {
				return Iface{T: nativeErrorType, V: &errVal{msg: "json: Unmarshal(non-pointer)"}}
			}
			p.stubsHit["encoding/json TEXT layer (encoder/parser written after encoding/json's rules; ASCII, no floats)"] = true
			return p.jsonUnmarshalText(sl.A, ptr, pt.Elem())
		}
		itf := a[1].(Iface)
		ptr, ok := itf.V.(*Value)
		pt, ok2 := itf.T.Underlying().(*types.Pointer)
		if !ok || !ok2 || ptr == nil {
			return Iface{T: nativeErrorType, V: &errVal{msg: "json: Unmarshal(non-pointer)"}}
		}
		p.stubsHit["encoding/json (field/tag contract model over the real struct types; no text layer)"] = true
		p.jsonDecode(ptr, pt.Elem(), deepCopy(blob.v), blob.t)
		return Iface{}
	}
}
