package main

// One long-lived SMT solver process per worker, driven over a pipe with
// push/pop.  Shared DAG nodes are emitted once as define-fun under
// (set-option :global-declarations true) so they survive pops.

import (
	"bufio"
	"fmt"
	"io"
	"math/big"
	"os"
	"os/exec"
	"strconv"
	"strings"
	"time"
)

type Res int

const (
	Sat Res = iota
	Unsat
	Unknown
)

func (r Res) String() string { return [...]string{"sat", "unsat", "unknown"}[r] }

type Solver struct {
	cmd      *exec.Cmd
	in       *bufio.Writer
	inRaw    io.WriteCloser
	out      *bufio.Reader
	gen      int
	declared map[string]bool
	tt       *TermTable
	// statistics
	NSat, NUnsat, NUnknown int
	Time                   time.Duration
	log                    *os.File
	timeoutMs              int
	errSeen                string
	depth                  int
	ufDeclared             map[string]bool
	tPlain, tTac           time.Duration
	nPlain, nTac           int
	sinceSample            int
	usedTactic, timed      bool
	HintLarge              bool // many symbolic variables on the path: go straight to the SAT pipeline
	PureBV                 bool // set by the caller per query: no UF / real terms asserted
	ModelTimeout           time.Duration
	ModelTimeouts          int
	epoch                  int // incremented whenever the process is restarted (all state lost)
	Restarts               int
}

var solverGen int

func solverArgv(kind string) []string {
	switch kind {
	case "z3-new":
		return []string{"z3-new", "-in"}
	case "cvc5":
		return []string{"cvc5", "--incremental", "--lang=smt2", "--produce-models"}
	}
	return []string{"z3", "-in"}
}

func NewSolver(tt *TermTable, timeoutMs int, logPath string) *Solver {
	s := &Solver{tt: tt, timeoutMs: timeoutMs}
	if logPath != "" {
		s.log, _ = os.Create(logPath)
	}
	s.start()
	return s
}

func (s *Solver) start() {
	argv := append(solverArgv("z3"), "-memory:6000")
	s.cmd = exec.Command(argv[0], argv[1:]...)
	inp, _ := s.cmd.StdinPipe()
	outp, _ := s.cmd.StdoutPipe()
	s.cmd.Stderr = os.Stderr
	if err := s.cmd.Start(); err != nil {
		panic(err)
	}
	s.inRaw = inp
	s.in = bufio.NewWriterSize(inp, 1<<16)
	s.out = bufio.NewReaderSize(outp, 1<<16)
	s.declared = map[string]bool{}
	s.ufDeclared = map[string]bool{}
	solverGen++
	s.gen = solverGen
	s.depth = 0
	s.send("(set-option :global-declarations true)")
	s.send("(set-option :produce-models true)")
	s.send(fmt.Sprintf("(set-option :timeout %d)", s.timeoutMs))
}

func (s *Solver) Close() {
	if s.cmd != nil {
		s.inRaw.Close()
		s.cmd.Process.Kill()
		s.cmd.Wait()
		s.cmd = nil
	}
	if s.log != nil {
		s.log.Close()
	}
}

// Restart kills the process and forgets all definitions.
func (s *Solver) Restart() {
	s.inRaw.Close()
	s.cmd.Process.Kill()
	s.cmd.Wait()
	s.epoch++
	s.Restarts++
	s.start()
}

func (s *Solver) send(x string) {
	s.in.WriteString(x)
	s.in.WriteByte('\n')
	if s.log != nil {
		s.log.WriteString(x + "\n")
	}
}

func (s *Solver) Push() { s.send("(push 1)"); s.depth++ }
func (s *Solver) Pop() {
	if s.depth > 0 {
		s.send("(pop 1)")
		s.depth--
	}
}

// define makes sure every node of t's DAG is known to the solver.
func (s *Solver) define(t *Term) {
	if t.gen == s.gen {
		return
	}
	t.gen = s.gen
	switch t.Op {
	case OpConst, OpRConst:
		return
	case OpVar:
		if !s.declared[t.Name] {
			s.declared[t.Name] = true
			s.send(fmt.Sprintf("(declare-const %s %s)", t.Name, t.S))
		}
		return
	case OpUF:
		if !s.ufDeclared[t.Name] {
			s.ufDeclared[t.Name] = true
			s.send(s.tt.ufs[t.Name])
		}
	}
	for _, a := range t.Args {
		s.define(a)
	}
	s.send(fmt.Sprintf("(define-fun t%d () %s %s)", t.ID, t.S, body(t)))
}

func (s *Solver) Assert(t *Term) {
	s.define(t)
	s.send("(assert " + refName(t) + ")")
}

func (s *Solver) readLine() string {
	for {
		l, err := s.out.ReadString('\n')
		if err != nil {
			s.errSeen = "solver pipe closed: " + err.Error()
			return "unknown"
		}
		l = strings.TrimSpace(l)
		if l == "" {
			continue
		}
		if s.log != nil {
			s.log.WriteString("; <- " + l + "\n")
		}
		if strings.HasPrefix(l, "(error") {
			s.errSeen = l
			continue
		}
		return l
	}
}

func (s *Solver) Check() Res {
	t0 := time.Now()
	if c := os.Getenv("POLYSYM_CHECKCMD"); c != "" && s.PureBV {
		s.send(c)
	} else if s.PureBV && os.Getenv("POLYSYM_PLAIN_CHECKSAT") == "" && s.chooseTactic() {
		// the assertions are pure bit-vector / Boolean: z3's SAT pipeline is far faster
		// than its incremental SMT core on them
		s.send("(check-sat-using (then simplify bit-blast sat))")
	} else {
		s.send("(check-sat)")
	}
	s.in.Flush()
	// watchdog: z3's own :timeout is not always honoured (preprocessing, memory growth)
	done := make(chan string, 1)
	go func() { done <- s.readLine() }()
	var l string
	select {
	case l = <-done:
	case <-time.After(time.Duration(s.timeoutMs)*time.Millisecond + 10*time.Second):
		s.cmd.Process.Kill()
		<-done
		s.errSeen = ""
		s.Time += time.Since(t0)
		s.Restart()
		s.NUnknown++
		return Unknown
	}
	s.Time += time.Since(t0)
	s.recordTiming(time.Since(t0))
	if strings.HasPrefix(s.errSeen, "solver pipe closed") {
		s.errSeen = ""
		s.Restart()
		s.NUnknown++
		return Unknown
	}
	if s.errSeen != "" {
		// any (error line makes the query inconclusive
		s.NUnknown++
		return Unknown
	}
	switch l {
	case "sat":
		s.NSat++
		return Sat
	case "unsat":
		s.NUnsat++
		return Unsat
	}
	s.NUnknown++
	return Unknown
}

// chooseTactic decides adaptively between z3's incremental core (fast on tiny
// queries) and the bit-blast/SAT pipeline (fast on large ones): both are
// sampled, then the one with the lower mean time is used, with periodic re-sampling.
func (s *Solver) chooseTactic() bool {
	s.usedTactic = false
	if s.HintLarge {
		s.usedTactic = true
		s.timed = false
		return true
	}
	switch {
	case s.nPlain < 5:
	case s.nTac < 5:
		s.usedTactic = true
	default:
		s.sinceSample++
		mp := s.tPlain / time.Duration(s.nPlain)
		mt := s.tTac / time.Duration(s.nTac)
		better := mt < mp
		if s.sinceSample%400 < 8 {
			s.usedTactic = !better // re-sample the other strategy
		} else {
			s.usedTactic = better
		}
	}
	s.timed = true
	return s.usedTactic
}

func (s *Solver) recordTiming(d time.Duration) {
	if !s.timed {
		return
	}
	s.timed = false
	// exponential forgetting keeps the estimate current
	if s.usedTactic {
		if s.nTac >= 200 {
			s.tTac /= 2
			s.nTac /= 2
		}
		s.tTac += d
		s.nTac++
	} else {
		if s.nPlain >= 200 {
			s.tPlain /= 2
			s.nPlain /= 2
		}
		s.tPlain += d
		s.nPlain++
	}
}

// TakeError returns and clears a recorded solver error.
func (s *Solver) TakeError() string {
	e := s.errSeen
	s.errSeen = ""
	return e
}

// ModelValue is a value from the solver's model.
type ModelValue struct {
	U uint64
	R *big.Rat
	S Sort
}

// Model asks for the values of the given variables after a sat answer.
func (s *Solver) Model(vars []*Var) map[string]ModelValue {
	res := map[string]ModelValue{}
	if len(vars) == 0 {
		return res
	}
	var names []string
	for _, v := range vars {
		s.define(v.T)
		names = append(names, v.Name)
	}
	s.send("(get-value (" + strings.Join(names, " ") + "))")
	s.in.Flush()
	// read a balanced s-expression, under a watchdog: model construction over a deep
	// shared DAG occasionally does not return in z3 4.8.12
	type rd struct{ text string }
	done := make(chan rd, 1)
	go func() {
		var sb strings.Builder
		depth := 0
		started := false
		for {
			l, err := s.out.ReadString('\n')
			if err != nil {
				break
			}
			if s.log != nil {
				s.log.WriteString("; <- " + l)
			}
			sb.WriteString(l)
			for _, c := range l {
				if c == '(' {
					depth++
					started = true
				} else if c == ')' {
					depth--
				}
			}
			if started && depth <= 0 {
				break
			}
		}
		done <- rd{sb.String()}
	}()
	lim := s.ModelTimeout
	if lim == 0 {
		lim = 120 * time.Second
	}
	var sb strings.Builder
	select {
	case r := <-done:
		sb.WriteString(r.text)
	case <-time.After(lim):
		s.cmd.Process.Kill()
		<-done
		s.errSeen = ""
		s.Restart()
		s.ModelTimeouts++
		return nil
	}
	sx := parseSexp(sb.String())
	byName := map[string]*Var{}
	for _, v := range vars {
		byName[v.Name] = v
	}
	if sx == nil {
		return res
	}
	for _, pair := range sx.list {
		if len(pair.list) != 2 {
			continue
		}
		v := byName[pair.list[0].atom]
		if v == nil {
			continue
		}
		res[v.Name] = sexpValue(pair.list[1], v.S)
	}
	return res
}

type sexp struct {
	atom string
	list []*sexp
}

func parseSexp(s string) *sexp {
	pos := 0
	var parse func() *sexp
	parse = func() *sexp {
		for pos < len(s) && (s[pos] == ' ' || s[pos] == '\n' || s[pos] == '\t' || s[pos] == '\r') {
			pos++
		}
		if pos >= len(s) {
			return nil
		}
		if s[pos] == '(' {
			pos++
			n := &sexp{list: []*sexp{}}
			for {
				for pos < len(s) && (s[pos] == ' ' || s[pos] == '\n' || s[pos] == '\t' || s[pos] == '\r') {
					pos++
				}
				if pos >= len(s) {
					return n
				}
				if s[pos] == ')' {
					pos++
					return n
				}
				c := parse()
				if c == nil {
					return n
				}
				n.list = append(n.list, c)
			}
		}
		st := pos
		for pos < len(s) && !strings.ContainsRune(" \n\t\r()", rune(s[pos])) {
			pos++
		}
		return &sexp{atom: s[st:pos]}
	}
	return parse()
}

func sexpRat(x *sexp) *big.Rat {
	if x.list == nil {
		r := new(big.Rat)
		if _, ok := r.SetString(x.atom); ok {
			return r
		}
		return new(big.Rat)
	}
	if len(x.list) == 0 {
		return new(big.Rat)
	}
	op := x.list[0].atom
	switch op {
	case "-":
		if len(x.list) == 2 {
			return new(big.Rat).Neg(sexpRat(x.list[1]))
		}
		return new(big.Rat).Sub(sexpRat(x.list[1]), sexpRat(x.list[2]))
	case "/":
		d := sexpRat(x.list[2])
		if d.Sign() == 0 {
			return new(big.Rat)
		}
		return new(big.Rat).Quo(sexpRat(x.list[1]), d)
	case "+":
		return new(big.Rat).Add(sexpRat(x.list[1]), sexpRat(x.list[2]))
	case "*":
		return new(big.Rat).Mul(sexpRat(x.list[1]), sexpRat(x.list[2]))
	}
	return new(big.Rat)
}

func sexpValue(x *sexp, so Sort) ModelValue {
	mv := ModelValue{S: so}
	switch so.K {
	case SBool:
		if x.atom == "true" {
			mv.U = 1
		}
	case SBV:
		a := x.atom
		if strings.HasPrefix(a, "#x") {
			mv.U, _ = strconv.ParseUint(a[2:], 16, 64)
		} else if strings.HasPrefix(a, "#b") {
			mv.U, _ = strconv.ParseUint(a[2:], 2, 64)
		} else if len(x.list) == 3 && strings.HasPrefix(x.list[1].atom, "bv") {
			mv.U, _ = strconv.ParseUint(x.list[1].atom[2:], 10, 64)
		}
	case SReal:
		mv.R = sexpRat(x)
	}
	return mv
}

// StandaloneScript renders a self-contained SMT-LIB2 script asserting all
// given terms, for cross-checking on another solver.
func StandaloneScript(tt *TermTable, asserts []*Term) string {
	var sb strings.Builder
	seen := map[int]bool{}
	ufSeen := map[string]bool{}
	var emit func(t *Term)
	emit = func(t *Term) {
		if seen[t.ID] {
			return
		}
		seen[t.ID] = true
		switch t.Op {
		case OpConst, OpRConst:
			return
		case OpVar:
			fmt.Fprintf(&sb, "(declare-const %s %s)\n", t.Name, t.S)
			return
		case OpUF:
			if !ufSeen[t.Name] {
				ufSeen[t.Name] = true
				sb.WriteString(tt.ufs[t.Name] + "\n")
			}
		}
		for _, a := range t.Args {
			emit(a)
		}
		fmt.Fprintf(&sb, "(define-fun t%d () %s %s)\n", t.ID, t.S, body(t))
	}
	for _, a := range asserts {
		emit(a)
	}
	for _, a := range asserts {
		fmt.Fprintf(&sb, "(assert %s)\n", refName(a))
	}
	sb.WriteString("(check-sat)\n")
	return sb.String()
}

// RunOneShot runs a standalone script on the named solver and returns its answer.
func RunOneShot(kind, script string, timeoutS int) (string, error) {
	f, err := os.CreateTemp("", "polysym-x-*.smt2")
	if err != nil {
		return "", err
	}
	defer os.Remove(f.Name())
	if kind == "cvc5" {
		f.WriteString("(set-logic ALL)\n")
	}
	f.WriteString(script)
	f.Close()
	var cmd *exec.Cmd
	switch kind {
	case "cvc5":
		cmd = exec.Command("cvc5", "--lang=smt2", fmt.Sprintf("--tlimit=%d", timeoutS*1000), f.Name())
	case "z3-new":
		cmd = exec.Command("z3-new", fmt.Sprintf("-T:%d", timeoutS), f.Name())
	default:
		cmd = exec.Command("z3", fmt.Sprintf("-T:%d", timeoutS), f.Name())
	}
	out, _ := cmd.CombinedOutput()
	o := strings.TrimSpace(string(out))
	if strings.Contains(o, "(error") {
		return "error: " + o, nil
	}
	ls := strings.Split(o, "\n")
	return strings.TrimSpace(ls[0]), nil
}
