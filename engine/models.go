package main

// Symbolic-aware models of standard-library functions (DESIGN.md section 3).
// Every model falls back to the real function when its arguments are concrete.

import (
	"fmt"
	"go/types"
	"math"
	"sort"
	"strconv"
	"strings"

	"golang.org/x/tools/go/ssa"
)

// forceModels makes every model take its symbolic path even on concrete inputs
// (translator validation of the models against the native functions).
var forceModels bool

func concStr(v Value) (string, bool) {
	if forceModels {
		return "", false
	}
	s, ok := v.(string)
	return s, ok
}

type modelFn func(p *Path, fn *ssa.Function, args []Value) Value

var models = map[string]modelFn{}

func init() {
	models["strings.ToUpper"] = func(p *Path, fn *ssa.Function, a []Value) Value { return p.mapCase(a[0], true) }
	models["strings.ToLower"] = func(p *Path, fn *ssa.Function, a []Value) Value { return p.mapCase(a[0], false) }
	models["strings.Map"] = modelStringsMap
	models["strings.Contains"] = func(p *Path, fn *ssa.Function, a []Value) Value { return p.strContains(a[0], a[1]) }
	models["strings.ContainsAny"] = modelContainsAny
	models["strings.HasPrefix"] = func(p *Path, fn *ssa.Function, a []Value) Value {
		if strLen(a[1]) > strLen(a[0]) {
			return false
		}
		return p.strEq(strSlice(a[0], 0, strLen(a[1])), a[1])
	}
	models["strings.HasSuffix"] = func(p *Path, fn *ssa.Function, a []Value) Value {
		n, m := strLen(a[0]), strLen(a[1])
		if m > n {
			return false
		}
		return p.strEq(strSlice(a[0], n-m, n), a[1])
	}
	models["strings.Index"] = func(p *Path, fn *ssa.Function, a []Value) Value { return int64(p.strIndex(a[0], a[1], 0)) }
	models["strings.LastIndex"] = modelLastIndex
	models["strings.Count"] = modelCount
	models["strings.Split"] = func(p *Path, fn *ssa.Function, a []Value) Value { return p.strSplit(a[0], a[1], false, -1) }
	models["strings.SplitAfter"] = func(p *Path, fn *ssa.Function, a []Value) Value { return p.strSplit(a[0], a[1], true, -1) }
	models["strings.SplitN"] = func(p *Path, fn *ssa.Function, a []Value) Value {
		return p.strSplit(a[0], a[1], false, int(concreteInt(a[2], "SplitN n")))
	}
	models["strings.Join"] = modelJoin
	models["strings.TrimSpace"] = modelTrimSpace
	models["strings.TrimLeft"] = modelTrimLeft
	models["strings.TrimPrefix"] = func(p *Path, fn *ssa.Function, a []Value) Value {
		if strLen(a[1]) <= strLen(a[0]) && p.decideVal(p.strEq(strSlice(a[0], 0, strLen(a[1])), a[1])) {
			return strSlice(a[0], strLen(a[1]), strLen(a[0]))
		}
		return a[0]
	}
	models["strings.TrimSuffix"] = func(p *Path, fn *ssa.Function, a []Value) Value {
		n, m := strLen(a[0]), strLen(a[1])
		if m <= n && p.decideVal(p.strEq(strSlice(a[0], n-m, n), a[1])) {
			return strSlice(a[0], 0, n-m)
		}
		return a[0]
	}
	models["strings.ReplaceAll"] = modelReplaceAll
	models["strings.Repeat"] = func(p *Path, fn *ssa.Function, a []Value) Value {
		n := int(concreteInt(a[1], "Repeat count"))
		if n < 0 {
			p.goPanicf("strings: negative Repeat count")
		}
		var out Value = ""
		for i := 0; i < n; i++ {
			out = strConcat(out, a[0])
		}
		return out
	}

	// strings.Builder / bytes.Buffer: state keyed by the identity of the cell
	models["(*strings.Builder).WriteString"] = func(p *Path, fn *ssa.Function, a []Value) Value {
		b := p.buf(a[0])
		b.b = append(b.b, strBytes(a[1])...)
		return Tuple{int64(strLen(a[1])), Iface{}}
	}
	models["(*strings.Builder).WriteByte"] = func(p *Path, fn *ssa.Function, a []Value) Value {
		b := p.buf(a[0])
		b.b = append(b.b, a[1])
		return Iface{}
	}
	models["(*strings.Builder).WriteRune"] = func(p *Path, fn *ssa.Function, a []Value) Value {
		b := p.buf(a[0])
		bs := p.asciiByteOfRune(a[1], "WriteRune")
		b.b = append(b.b, bs...)
		return Tuple{int64(len(bs)), Iface{}}
	}
	models["(*strings.Builder).String"] = func(p *Path, fn *ssa.Function, a []Value) Value {
		b := p.buf(a[0])
		return mkStr(append([]Value(nil), b.b...))
	}
	models["(*strings.Builder).Len"] = func(p *Path, fn *ssa.Function, a []Value) Value { return int64(len(p.buf(a[0]).b)) }
	models["(*strings.Builder).Reset"] = func(p *Path, fn *ssa.Function, a []Value) Value { p.buf(a[0]).b = nil; return nil }
	models["(*strings.Builder).Grow"] = func(p *Path, fn *ssa.Function, a []Value) Value { return nil }
	models["(*bytes.Buffer).WriteString"] = models["(*strings.Builder).WriteString"]
	models["(*bytes.Buffer).WriteByte"] = models["(*strings.Builder).WriteByte"]
	models["(*bytes.Buffer).WriteRune"] = models["(*strings.Builder).WriteRune"]
	models["(*bytes.Buffer).String"] = models["(*strings.Builder).String"]
	models["(*bytes.Buffer).Len"] = models["(*strings.Builder).Len"]
	// bytes.Buffer.Reset keeps the storage (a slice obtained from Bytes earlier is overwritten by later writes)
	models["(*bytes.Buffer).Reset"] = func(p *Path, fn *ssa.Function, a []Value) Value {
		b := p.buf(a[0])
		b.b = b.b[:0]
		return nil
	}
	models["(*bytes.Buffer).Grow"] = models["(*strings.Builder).Grow"]
	models["(*bytes.Buffer).Write"] = func(p *Path, fn *ssa.Function, a []Value) Value {
		b := p.buf(a[0])
		sl := a[1].(Slice)
		b.b = append(b.b, sl.A...)
		return Tuple{int64(len(sl.A)), Iface{}}
	}
	// fmt.Fprintf / Fprint into a modelled buffer: the text is formatted by the real fmt (concrete operands only)
	fprint := func(format string) func(p *Path, fn *ssa.Function, a []Value) Value {
		return func(p *Path, fn *ssa.Function, a []Value) Value {
			w, _ := a[0].(Iface)
			cell, ok := w.V.(*Value)
			if !ok || w.T == nil || (w.T.String() != "*bytes.Buffer" && w.T.String() != "*strings.Builder") {
				panic(unsupported("%s into a writer of type %v", fn, w.T))
			}
			res, ok := p.callNative(format, natives[format], fn, a[1:])
			if !ok {
				panic(unsupported("%s with symbolic operands", fn))
			}
			text := res.(string)
			b := p.buf(cell)
			b.b = append(b.b, strBytes(text)...)
			return Tuple{int64(len(text)), Iface{}}
		}
	}
	models["fmt.Fprintf"] = fprint("fmt.Sprintf")
	models["fmt.Fprint"] = fprint("fmt.Sprint")
	models["fmt.Fprintln"] = fprint("fmt.Sprintln")
	models["bytes.NewBuffer"] = func(p *Path, fn *ssa.Function, a []Value) Value {
		cell := new(Value)
		*cell = Struct{} // opaque: the state lives in the side table, keyed by this cell
		sl, _ := a[0].(Slice)
		p.side[cell] = &bufState{b: append([]Value(nil), sl.A...)}
		return cell
	}
	models["bytes.NewBufferString"] = func(p *Path, fn *ssa.Function, a []Value) Value {
		cell := new(Value)
		*cell = Struct{}
		p.side[cell] = &bufState{b: append([]Value(nil), strBytes(a[0])...)}
		return cell
	}
	models["(*bytes.Buffer).WriteTo"] = func(p *Path, fn *ssa.Function, a []Value) Value {
		b := p.buf(a[0])
		itf := a[1].(Iface)
		dst, ok := itf.V.(*Value)
		if !ok {
			panic(unsupported("bytes.Buffer.WriteTo a writer that is not a *bytes.Buffer"))
		}
		d := p.buf(dst)
		n := len(b.b)
		d.b = append(d.b, b.b...)
		b.b = nil
		return Tuple{int64(n), Iface{}}
	}
	models["(*bytes.Buffer).Bytes"] = func(p *Path, fn *ssa.Function, a []Value) Value {
		// the result aliases the buffer's storage, as in the real package
		b := p.buf(a[0])
		if b.b == nil {
			return Slice{A: []Value{}}
		}
		return Slice{A: b.b}
	}

	models["strconv.Itoa"] = func(p *Path, fn *ssa.Function, a []Value) Value {
		switch x := a[0].(type) {
		case int64:
			return strconv.Itoa(int(x))
		case *Term:
			return strconv.Itoa(int(p.Concretize(x, "Itoa argument")))
		}
		panic("Itoa")
	}
	models["strconv.Atoi"] = modelAtoi
	models["sort.Strings"] = modelSortStrings
	models["sort.Slice"] = func(p *Path, fn *ssa.Function, a []Value) Value { return modelSortSlice(p, a, false) }
	models["sort.SliceStable"] = func(p *Path, fn *ssa.Function, a []Value) Value { return modelSortSlice(p, a, true) }
	models["errors.New"] = func(p *Path, fn *ssa.Function, a []Value) Value {
		return Iface{T: nativeErrorType, V: &errVal{msg: a[0]}}
	}
	models["encoding/hex.EncodeToString"] = modelHexEncode
	models["lukechampine.com/blake3.Sum256"] = modelBlake3
	models["(*sync.WaitGroup).Add"] = func(p *Path, fn *ssa.Function, a []Value) Value {
		p.wgAdd(a[0].(*Value), int(concreteInt(a[1], "WaitGroup delta")))
		return nil
	}
	models["(*sync.WaitGroup).Done"] = func(p *Path, fn *ssa.Function, a []Value) Value {
		p.wgAdd(a[0].(*Value), -1)
		return nil
	}
	models["(*sync.WaitGroup).Wait"] = func(p *Path, fn *ssa.Function, a []Value) Value {
		p.wgWait(a[0].(*Value))
		return nil
	}
	models["log.Fatal"] = func(p *Path, fn *ssa.Function, a []Value) Value {
		p.goPanicf("log.Fatal called")
		return nil
	}
	models["time.Now"] = func(p *Path, fn *ssa.Function, a []Value) Value { return &Native{V: "time"} }
	models["(time.Time).UTC"] = func(p *Path, fn *ssa.Function, a []Value) Value { return a[0] }
	models["(time.Time).UnixNano"] = func(p *Path, fn *ssa.Function, a []Value) Value { return int64(0) }
	models["math/rand.Seed"] = func(p *Path, fn *ssa.Function, a []Value) Value { return nil }
	models["math/rand.Intn"] = modelRandIntn
	models["math.Log"] = modelLog
	models["math.Sqrt"] = modelSqrt
	// blake3 streaming interface: the bytes written are collected, Sum is the same
	// uninterpreted function of them as Sum256
	models["lukechampine.com/blake3.New"] = func(p *Path, fn *ssa.Function, a []Value) Value {
		if n, ok := a[0].(int64); !ok || n != 32 {
			panic(unsupported("blake3.New with a digest size other than 32"))
		}
		return &Native{V: &blakeHasher{}}
	}
	models["(*lukechampine.com/blake3.Hasher).Write"] = func(p *Path, fn *ssa.Function, a []Value) Value {
		h := a[0].(*Native).V.(*blakeHasher)
		sl := a[1].(Slice)
		h.data = append(h.data, sl.A...)
		return Tuple{int64(len(sl.A)), Iface{}}
	}
	models["(*lukechampine.com/blake3.Hasher).Reset"] = func(p *Path, fn *ssa.Function, a []Value) Value {
		a[0].(*Native).V.(*blakeHasher).data = nil
		return nil
	}
	models["(*lukechampine.com/blake3.Hasher).Sum"] = func(p *Path, fn *ssa.Function, a []Value) Value {
		h := a[0].(*Native).V.(*blakeHasher)
		d := modelBlake3(p, fn, []Value{Slice{A: h.data}}).(Array)
		pre, _ := a[1].(Slice)
		out := append(append([]Value(nil), pre.A...), []Value(d)...)
		return Slice{A: out}
	}
}

type blakeHasher struct{ data []Value }

// modelSqrt: math.Sqrt on a symbolic real is a fresh real y with y >= 0 and y*y = x (x >= 0).
func modelSqrt(p *Path, fn *ssa.Function, a []Value) Value {
	if f, ok := a[0].(float64); ok {
		return math.Sqrt(f)
	}
	if !p.realMode {
		panic(unsupported("math.Sqrt of a symbolic float outside real mode"))
	}
	tt := p.tt()
	x := a[0].(*Term)
	if x.Op == OpRConst {
		f, _ := x.R.Float64()
		return tt.RConstF(math.Sqrt(f)) // rounding is outside the claim in real mode
	}
	zero := tt.RConstF(0)
	if p.Decide(tt.Cmp(OpRLt, x, zero)) {
		return math.NaN()
	}
	name := fmt.Sprintf("sqrt%d", len(p.vars))
	v := tt.NewVar(name, RealSort, nil)
	p.vars = append(p.vars, v)
	p.draws = append(p.draws, Draw{Kind: "real", Dom: "sqrt", vars: []*Var{v}})
	p.pc = append(p.pc, tt.Cmp(OpRLe, zero, v.T), tt.Eq(tt.RBin(OpRMul, v.T, v.T), x))
	p.stubsHit["math.Sqrt (a non-negative real whose square is the argument)"] = true
	p.model = nil
	return v.T
}

// modelLog: math.Log on a symbolic real is an uninterpreted, strictly monotone function.
func modelLog(p *Path, fn *ssa.Function, a []Value) Value {
	if f, ok := a[0].(float64); ok {
		return math.Log(f)
	}
	if !p.realMode {
		panic(unsupported("math.Log of a symbolic float outside real mode"))
	}
	tt := p.tt()
	x := a[0].(*Term)
	y := tt.UF("log_real", RealSort, x)
	p.stubsHit["math.Log (uninterpreted, strictly monotone, over the reals)"] = true
	for _, prev := range p.logApps {
		if prev == y {
			return y
		}
	}
	for _, prev := range p.logApps {
		px := prev.Args[0]
		// strict monotonicity, instantiated for every pair of applications on the path
		p.pc = append(p.pc, tt.Implies(tt.Cmp(OpRLt, px, x), tt.Cmp(OpRLt, prev, y)))
		p.pc = append(p.pc, tt.Implies(tt.Cmp(OpRLt, x, px), tt.Cmp(OpRLt, y, prev)))
	}
	p.logApps = append(p.logApps, y)
	p.model = nil
	return y
}

// errVal is an error created by errors.New with a possibly symbolic message.
type errVal struct{ msg Value }

type bufState struct{ b []Value }

func (p *Path) buf(ptr Value) *bufState {
	c := ptr.(*Value)
	if c == nil {
		p.goPanicf("runtime error: invalid memory address or nil pointer dereference")
	}
	if st, ok := p.side[c]; ok {
		return st.(*bufState)
	}
	st := &bufState{}
	p.side[c] = st
	return st
}

// decideVal branches on a bool-or-term value.
func (p *Path) decideVal(v Value) bool {
	switch x := v.(type) {
	case bool:
		return x
	case *Term:
		return p.Decide(x)
	}
	panic(fmt.Sprintf("decideVal %T", v))
}

func (p *Path) mapCase(s Value, upper bool) Value {
	if c, ok := concStr(s); ok {
		if upper {
			return strings.ToUpper(c)
		}
		return strings.ToLower(c)
	}
	tt := p.tt()
	bs := strBytes(s)
	out := make([]Value, len(bs))
	for i, b := range bs {
		switch x := b.(type) {
		case int64:
			if x >= 0x80 {
				panic(unsupported("non-ASCII byte in ToUpper/ToLower"))
			}
			if upper && x >= 'a' && x <= 'z' {
				x -= 32
			} else if !upper && x >= 'A' && x <= 'Z' {
				x += 32
			}
			out[i] = x
		case *Term:
			if p.Decide(tt.Not(tt.Cmp(OpUlt, x, tt.Const(BV(8), 0x80)))) {
				panic(unsupported("non-ASCII byte in ToUpper/ToLower (outside the ASCII-only claim)"))
			}
			var lo, hi, d uint64 = 'a', 'z', 0xE0 // -32
			if !upper {
				lo, hi, d = 'A', 'Z', 0x20
			}
			in := tt.And(tt.Cmp(OpUle, tt.Const(BV(8), lo), x), tt.Cmp(OpUle, x, tt.Const(BV(8), hi)))
			out[i] = termOrInt(tt.Ite(in, tt.Bin(OpAdd, x, tt.Const(BV(8), d)), x), intInfo{8, false})
		}
	}
	return mkStr(out)
}

func modelStringsMap(p *Path, fn *ssa.Function, a []Value) Value {
	f := a[0]
	bs := strBytes(a[1])
	var out []Value
	rt := types.Typ[types.Rune]
	for _, b := range bs {
		r := p.runeOfByte(b, "strings.Map")
		m := p.call(f, []Value{r}, nil)
		// negative rune: dropped
		switch x := m.(type) {
		case int64:
			if x < 0 {
				continue
			}
		case *Term:
			if p.Decide(p.tt().Cmp(OpSlt, x, p.tt().Const(BV(32), 0))) {
				continue
			}
		}
		_ = rt
		out = append(out, p.asciiByteOfRune(m, "strings.Map result")...)
	}
	return mkStr(out)
}

// matchAt: does sub occur in s at offset i (bool or term)?
func (p *Path) matchAt(s Value, i int, sub Value) Value {
	return p.strEq(strSlice(s, i, i+strLen(sub)), sub)
}

func (p *Path) strContains(s, sub Value) Value {
	if a, ok := concStr(s); ok {
		if b, ok := concStr(sub); ok {
			return strings.Contains(a, b)
		}
	}
	n, m := strLen(s), strLen(sub)
	var acc Value = false
	for i := 0; i+m <= n; i++ {
		acc = p.boolOr(acc, p.matchAt(s, i, sub))
		if b, ok := acc.(bool); ok && b {
			return true
		}
	}
	return acc
}

func modelContainsAny(p *Path, fn *ssa.Function, a []Value) Value {
	chars := strBytes(a[1])
	var acc Value = false
	for _, b := range strBytes(a[0]) {
		for _, c := range chars {
			acc = p.boolOr(acc, p.equals(types.Typ[types.Uint8], b, c))
		}
	}
	return acc
}

// strIndex returns the first index >= from at which sub occurs (forking), or -1.
func (p *Path) strIndex(s, sub Value, from int) int {
	if a, ok := concStr(s); ok {
		if b, ok := concStr(sub); ok {
			i := strings.Index(a[from:], b)
			if i < 0 {
				return -1
			}
			return i + from
		}
	}
	n, m := strLen(s), strLen(sub)
	for i := from; i+m <= n; i++ {
		if p.decideVal(p.matchAt(s, i, sub)) {
			return i
		}
	}
	return -1
}

func modelLastIndex(p *Path, fn *ssa.Function, a []Value) Value {
	n, m := strLen(a[0]), strLen(a[1])
	for i := n - m; i >= 0; i-- {
		if p.decideVal(p.matchAt(a[0], i, a[1])) {
			return int64(i)
		}
	}
	return int64(-1)
}

func modelCount(p *Path, fn *ssa.Function, a []Value) Value {
	s, sub := a[0], a[1]
	if x, ok := concStr(s); ok {
		if y, ok := concStr(sub); ok {
			return int64(strings.Count(x, y))
		}
	}
	m := strLen(sub)
	if m == 0 {
		return int64(strLen(s) + 1)
	}
	if m == 1 {
		// sum of equalities as a term (no fork)
		tt := p.tt()
		var sum *Term = tt.Const(BV(64), 0)
		for _, b := range strBytes(s) {
			eq := p.equals(types.Typ[types.Uint8], b, strAt(sub, 0))
			sum = tt.Bin(OpAdd, sum, tt.Ite(p.boolTerm(eq), tt.Const(BV(64), 1), tt.Const(BV(64), 0)))
		}
		return termOrInt(sum, intInfo{64, true})
	}
	cnt := 0
	for i := 0; ; {
		j := p.strIndex(s, sub, i)
		if j < 0 {
			break
		}
		cnt++
		i = j + m
	}
	return int64(cnt)
}

func (p *Path) strSplit(s, sep Value, after bool, n int) Value {
	if a, ok := concStr(s); ok {
		if b, ok := concStr(sep); ok {
			var parts []string
			switch {
			case after:
				parts = strings.SplitAfter(a, b)
			case n >= 0:
				parts = strings.SplitN(a, b, n)
			default:
				parts = strings.Split(a, b)
			}
			out := make([]Value, len(parts))
			for i, x := range parts {
				out[i] = x
			}
			return Slice{A: out}
		}
	}
	m := strLen(sep)
	if m == 0 {
		panic(unsupported("strings.Split with empty separator on a symbolic string"))
	}
	if n == 0 {
		return Slice{}
	}
	var out []Value
	start := 0
	for {
		if n > 0 && len(out) == n-1 {
			break
		}
		j := p.strIndex(s, sep, start)
		if j < 0 {
			break
		}
		if after {
			out = append(out, strSlice(s, start, j+m))
		} else {
			out = append(out, strSlice(s, start, j))
		}
		start = j + m
	}
	out = append(out, strSlice(s, start, strLen(s)))
	return Slice{A: out}
}

func modelJoin(p *Path, fn *ssa.Function, a []Value) Value {
	sl := a[0].(Slice)
	var out Value = ""
	for i, e := range sl.A {
		if i > 0 {
			out = strConcat(out, a[1])
		}
		out = strConcat(out, e)
	}
	return out
}

func (p *Path) isSpaceByte(b Value) Value {
	switch x := b.(type) {
	case int64:
		return x == ' ' || x == '\t' || x == '\n' || x == '\v' || x == '\f' || x == '\r'
	case *Term:
		tt := p.tt()
		var alts []*Term
		for _, c := range []uint64{' ', '\t', '\n', '\v', '\f', '\r'} {
			alts = append(alts, tt.Eq(x, tt.Const(BV(8), c)))
		}
		return termOrBool(tt.Or(alts...))
	}
	panic("isSpaceByte")
}

func modelTrimSpace(p *Path, fn *ssa.Function, a []Value) Value {
	s := a[0]
	if c, ok := concStr(s); ok {
		return strings.TrimSpace(c)
	}
	lo, hi := 0, strLen(s)
	for lo < hi && p.decideVal(p.isSpaceByte(strAt(s, lo))) {
		lo++
	}
	for hi > lo && p.decideVal(p.isSpaceByte(strAt(s, hi-1))) {
		hi--
	}
	// TrimSpace treats non-ASCII through unicode.IsSpace; bytes >= 0x80 are outside the claim
	return strSlice(s, lo, hi)
}

func modelTrimLeft(p *Path, fn *ssa.Function, a []Value) Value {
	s := a[0]
	cut := concreteString(a[1], "TrimLeft cutset")
	lo, hi := 0, strLen(s)
	for lo < hi {
		var in Value = false
		for i := 0; i < len(cut); i++ {
			in = p.boolOr(in, p.equals(types.Typ[types.Uint8], strAt(s, lo), int64(cut[i])))
		}
		if !p.decideVal(in) {
			break
		}
		lo++
	}
	return strSlice(s, lo, hi)
}

func modelReplaceAll(p *Path, fn *ssa.Function, a []Value) Value {
	s, old, nw := a[0], a[1], a[2]
	if x, ok := concStr(s); ok {
		if y, ok := concStr(old); ok {
			if z, ok := concStr(nw); ok {
				return strings.ReplaceAll(x, y, z)
			}
		}
	}
	m := strLen(old)
	if m == 0 {
		panic(unsupported("ReplaceAll with empty pattern on symbolic string"))
	}
	if m == 1 && strLen(nw) == 1 {
		// byte-wise ITE, no fork
		tt := p.tt()
		bs := strBytes(s)
		out := make([]Value, len(bs))
		for i, b := range bs {
			eq := p.equals(types.Typ[types.Uint8], b, strAt(old, 0))
			switch q := eq.(type) {
			case bool:
				if q {
					out[i] = strAt(nw, 0)
				} else {
					out[i] = b
				}
			case *Term:
				out[i] = termOrInt(tt.Ite(q, p.byteTerm(strAt(nw, 0)), p.byteTerm(b)), intInfo{8, false})
			}
		}
		return mkStr(out)
	}
	var out Value = ""
	start := 0
	for {
		j := p.strIndex(s, old, start)
		if j < 0 {
			break
		}
		out = strConcat(out, strSlice(s, start, j))
		out = strConcat(out, nw)
		start = j + m
	}
	return strConcat(out, strSlice(s, start, strLen(s)))
}

func modelAtoi(p *Path, fn *ssa.Function, a []Value) Value {
	s := a[0]
	if c, ok := concStr(s); ok {
		v, err := strconv.Atoi(c)
		if err != nil {
			return Tuple{int64(v), Iface{T: nativeErrorType, V: &Native{V: err}}}
		}
		return Tuple{int64(v), Iface{}}
	}
	// symbolic digits: concretise (fork) each byte
	c := p.concretizeStr(s).(string)
	v, err := strconv.Atoi(c)
	if err != nil {
		return Tuple{int64(v), Iface{T: nativeErrorType, V: &Native{V: err}}}
	}
	return Tuple{int64(v), Iface{}}
}

func modelSortStrings(p *Path, fn *ssa.Function, a []Value) Value {
	sl := a[0].(Slice)
	allc := true
	for _, e := range sl.A {
		if _, ok := e.(string); !ok {
			allc = false
		}
	}
	if allc {
		ss := make([]string, len(sl.A))
		for i, e := range sl.A {
			ss[i] = e.(string)
		}
		sort.Strings(ss)
		for i := range ss {
			sl.A[i] = ss[i]
		}
		return nil
	}
	// insertion sort with symbolic comparisons (forks)
	for i := 1; i < len(sl.A); i++ {
		for j := i; j > 0 && p.decideVal(p.strLess(sl.A[j], sl.A[j-1], false)); j-- {
			sl.A[j], sl.A[j-1] = sl.A[j-1], sl.A[j]
		}
	}
	return nil
}

// modelSortSlice: insertion sort calling the real less closure. Insertion sort
// is stable; for sort.Slice (unstable in Go) the order of equal elements is
// therefore one of the permitted ones.
func modelSortSlice(p *Path, a []Value, stable bool) Value {
	itf := a[0].(Iface)
	sl, ok := itf.V.(Slice)
	if !ok {
		panic(unsupported("sort.Slice on %T", itf.V))
	}
	less := a[1]
	n := len(sl.A)
	// the less closure indexes the live slice, so we must physically swap
	for i := 1; i < n; i++ {
		for j := i; j > 0; j-- {
			r := p.call(less, []Value{int64(j), int64(j - 1)}, nil)
			if !p.decideVal(r) {
				break
			}
			sl.A[j], sl.A[j-1] = sl.A[j-1], sl.A[j]
		}
	}
	return nil
}

const hexdigits = "0123456789abcdef"

func modelHexEncode(p *Path, fn *ssa.Function, a []Value) Value {
	sl := a[0].(Slice)
	tt := p.tt()
	var out []Value
	for _, b := range sl.A {
		switch x := b.(type) {
		case int64:
			out = append(out, int64(hexdigits[(x>>4)&15]), int64(hexdigits[x&15]))
		case *Term:
			for _, nib := range []*Term{tt.Extract(x, 7, 4), tt.Extract(x, 3, 0)} {
				out = append(out, termOrInt(tt.HexNib(nib), intInfo{8, false}))
			}
		}
	}
	return mkStr(out)
}

// digestNibble recognises a hex digit of a blake3 digest: HexNib(extract(hi,lo, H(args))).
func digestNibble(v Value) (h *Term, lo int, ok bool) {
	t, isT := v.(*Term)
	if !isT || t.Op != OpHexNib {
		return nil, 0, false
	}
	e := t.Args[0]
	// extract(3,0 | 7,4) of extract(hi,lo of UF)
	off := 0
	for e.Op == OpExtract {
		off += e.Lo
		e = e.Args[0]
	}
	if e.Op != OpUF || !strings.HasPrefix(e.Name, "blake3_") {
		return nil, 0, false
	}
	return e, off, true
}

// modelBlake3: BLAKE3-256 as an uninterpreted function per input length; on
// concrete input the real digest is NOT computed here (no blake3 in the engine's
// module graph) - the function stays uninterpreted and congruence is all that is used.
func modelBlake3(p *Path, fn *ssa.Function, a []Value) Value {
	sl := a[0].(Slice)
	tt := p.tt()
	n := len(sl.A)
	name := fmt.Sprintf("blake3_%d", n)
	var args []*Term
	for _, b := range sl.A {
		args = append(args, p.byteTerm(b))
	}
	var h *Term
	if n == 0 {
		h = tt.UF(name, BV(256))
	} else {
		h = tt.UF(name, BV(256), args...)
	}
	p.stubsHit["blake3.Sum256 (uninterpreted function)"] = true
	p.ufApps[name] = append(p.ufApps[name], h)
	out := make(Array, 32)
	for i := 0; i < 32; i++ {
		hi := 255 - 8*i
		out[i] = tt.Extract(h, hi, hi-7)
	}
	return out
}

func modelRandIntn(p *Path, fn *ssa.Function, a []Value) Value {
	p.stubsHit["math/rand.Intn (arbitrary value in [0,n))"] = true
	tt := p.tt()
	it := types.Typ[types.Int]
	switch n := a[0].(type) {
	case int64:
		if n <= 0 {
			p.goPanicf("invalid argument to Intn")
		}
		v := p.DrawInt(0, n-1, 64)
		p.draws[len(p.draws)-1].Dom = "rand.Intn"
		p.randTrace = append(p.randTrace, v)
		return v
	case *Term:
		if p.Decide(tt.Cmp(OpSle, n, tt.Const(BV(64), 0))) {
			p.goPanicf("invalid argument to Intn")
		}
		name := fmt.Sprintf("rnd%d", len(p.vars))
		v := tt.NewVar(name, BV(64), nil)
		p.vars = append(p.vars, v)
		p.draws = append(p.draws, Draw{Kind: "int", Dom: "rand.Intn", vars: []*Var{v}})
		p.pc = append(p.pc, tt.Cmp(OpSle, tt.Const(BV(64), 0), v.T), tt.Cmp(OpSlt, v.T, p.toTerm(n, it)))
		for _, x := range []*Var{v} {
			p.ent[x] = true
		}
		sup := map[*Var]bool{}
		Support(n, map[int]bool{}, sup)
		for x := range sup {
			p.ent[x] = true
		}
		p.randTrace = append(p.randTrace, v.T)
		return v.T
	}
	panic("rand.Intn")
}
