package main

// Loading of /repo (current working tree) with the harness overlay, SSA
// construction, and the per-run shared state.

import (
	"encoding/json"
	"fmt"
	"go/types"
	"os"
	"path/filepath"
	"sort"
	"strings"
	"sync"

	"golang.org/x/tools/go/packages"
	"golang.org/x/tools/go/ssa"
	"golang.org/x/tools/go/ssa/ssautil"
)

var repoDir = "/repo"
const modPath = "github.com/TimothyStiles/poly"

var verifDir = "/verif"

type KnownFinding struct {
	Property  string `json:"property"`
	ID        string `json:"id"`
	Status    string `json:"status"` // known | fixed
	Commit    string `json:"commit,omitempty"`
	WhatFails string `json:"what_fails"`
	Witness   string `json:"witness,omitempty"`
}

type Engine struct {
	prog    *ssa.Program
	targets map[*ssa.Package]bool
	tpkgs   []*ssa.Package
	prims   map[*ssa.Function]bool
	tier    string
	seed    int64
	prop    string

	findings map[string]KnownFinding

	mu         sync.Mutex
	coverSeen  map[string]bool
	unknowns   map[string]int
	solverErrs map[string]int

	schedBudget   int
	schedLifo     bool
	maxGoroutines int
	maxSteps      int
	maxDepth      int
	timeoutMs     int
	mapOrderRev   bool
	mapOrderAlt   bool // reversed order on every second map iteration of a path only

	crossEvery    int
	assertQueries int
	crossRuns     int
	crossAnswered int
	crossDisagree []string
	crossWG       sync.WaitGroup
	crossSem      chan struct{}

	harnessFiles map[string][]string // rel pkg dir -> harness file paths
	methodCache  sync.Map
}

func (e *Engine) isTarget(p *ssa.Package) bool { return e.targets[p] }

// maybeCrossCheck re-runs a sample of the assertion queries (path condition plus
// negated assertion, as a standalone script) on cvc5 and on z3 5.1 and records
// any disagreement with the primary solver's answer.
func (e *Engine) maybeCrossCheck(p *Path, extra []*Term, r Res) {
	if r == Unknown || e.crossEvery <= 0 || len(p.vars) > 400 {
		return
	}
	e.mu.Lock()
	e.assertQueries++
	n := e.assertQueries
	e.mu.Unlock()
	if n != 1 && n%e.crossEvery != 0 {
		return
	}
	as := append(append([]*Term{}, p.pc...), extra...)
	script := StandaloneScript(p.tt(), as)
	want := r.String()
	harness := p.harness
	for _, kind := range []string{"cvc5", "z3-new"} {
		kind := kind
		e.crossWG.Add(1)
		// the other solvers run beside the exploration; the verdict waits for them at the end
		go func() {
			defer e.crossWG.Done()
			e.crossSem <- struct{}{}
			defer func() { <-e.crossSem }()
			got, err := RunOneShot(kind, script, 10)
			e.mu.Lock()
			e.crossRuns++
			if err == nil && (got == "sat" || got == "unsat") {
				e.crossAnswered++
				if got != want {
					e.crossDisagree = append(e.crossDisagree, fmt.Sprintf("%s answered %s where z3 4.8.12 answered %s (harness %s)", kind, got, want, harness))
				}
			}
			e.mu.Unlock()
		}()
	}
}

var initAllowedExtra = map[string]bool{
	"github.com/mitchellh/go-wordwrap": true,
	"github.com/mroth/weightedrand":    true,
}

func (e *Engine) initAllowed(p *ssa.Package) bool {
	path := p.Pkg.Path()
	return strings.HasPrefix(path, modPath) || initAllowedExtra[path]
}

// well-known error values of standard-library packages whose initialisers are not run
var ioEOF = &errVal{msg: "EOF"}
var ioErrUnexpectedEOF = &errVal{msg: "unexpected EOF"}

func (e *Engine) nativeGlobal(g *ssa.Global) (Value, bool) {
	switch g.String() {
	case "io.EOF":
		return Iface{T: nativeErrorType, V: ioEOF}, true
	case "io.ErrUnexpectedEOF":
		return Iface{T: nativeErrorType, V: ioErrUnexpectedEOF}, true
	}
	return nil, false
}

func (e *Engine) interpretable(fn *ssa.Function) bool { return true }

func (e *Engine) isPrimitive(fn *ssa.Function) bool { return e.prims[fn] }

func (e *Engine) findingActive(id string) bool {
	f, ok := e.findings[id]
	return ok && f.Status == "known"
}

func (e *Engine) coverKnown(label string) bool {
	e.mu.Lock()
	defer e.mu.Unlock()
	return e.coverSeen[label]
}

func (e *Engine) lookupMethod(t types.Type, m *types.Func) *ssa.Function {
	return e.prog.LookupMethod(t, m.Pkg(), m.Name())
}

func loadFindings() map[string]KnownFinding {
	out := map[string]KnownFinding{}
	b, err := os.ReadFile(filepath.Join(verifDir, "known_findings.json"))
	if err != nil {
		return out
	}
	var fs []KnownFinding
	if err := json.Unmarshal(b, &fs); err != nil {
		fmt.Fprintln(os.Stderr, "known_findings.json:", err)
		os.Exit(2)
	}
	for _, f := range fs {
		out[f.ID] = f
	}
	return out
}

// findHarnessFiles returns rel-pkg-dir -> files for a property id ("C12").
func findHarnessFiles(prop string) map[string][]string {
	out := map[string][]string{}
	root := filepath.Join(verifDir, "harness")
	pat := "zz_verif_" + strings.ToLower(prop)
	filepath.Walk(root, func(path string, info os.FileInfo, err error) error {
		if err != nil || info.IsDir() {
			return nil
		}
		base := filepath.Base(path)
		if strings.HasPrefix(base, pat) && strings.HasSuffix(base, ".go") && !strings.HasSuffix(base, "_test.go") {
			rest := strings.TrimPrefix(base, pat)
			if rest == ".go" || strings.HasPrefix(rest, "_") {
				rel, _ := filepath.Rel(root, filepath.Dir(path))
				out[rel] = append(out[rel], path)
			}
		}
		return nil
	})
	// shared helper files of the directories that have a harness for this property
	for rel := range out {
		cs, _ := filepath.Glob(filepath.Join(root, rel, "zz_verif_common*.go"))
		out[rel] = append(out[rel], cs...)
	}
	return out
}

func pkgNameOf(dir string) string {
	// read the package clause of any non-test go file in /repo/<dir>
	ents, _ := os.ReadDir(filepath.Join(repoDir, dir))
	for _, e := range ents {
		n := e.Name()
		if strings.HasSuffix(n, ".go") && !strings.HasSuffix(n, "_test.go") {
			b, _ := os.ReadFile(filepath.Join(repoDir, dir, n))
			for _, l := range strings.Split(string(b), "\n") {
				l = strings.TrimSpace(l)
				if strings.HasPrefix(l, "package ") {
					return strings.Fields(l)[1]
				}
			}
		}
	}
	return filepath.Base(dir)
}

func shimSource(kind, pkg string) []byte {
	b, err := os.ReadFile(filepath.Join(verifDir, "harness", "shim", "shim_"+kind+".go.txt"))
	if err != nil {
		fmt.Fprintln(os.Stderr, "shim:", err)
		os.Exit(2)
	}
	return []byte(strings.Replace(string(b), "package SHIMPKG", "package "+pkg, 1))
}

func LoadEngine(prop, tier string, seed int64) *Engine {
	e := &Engine{tier: tier, seed: seed, prop: prop, targets: map[*ssa.Package]bool{}, prims: map[*ssa.Function]bool{},
		coverSeen: map[string]bool{}, unknowns: map[string]int{}, solverErrs: map[string]int{},
		maxGoroutines: 10000, maxSteps: 200000000, maxDepth: 400, timeoutMs: 60000}
	e.schedBudget = 2
	e.crossEvery = 500
	if tier == "thorough" {
		e.crossEvery = 50
		e.timeoutMs = 300000
		e.schedBudget = 3
	}
	if s := os.Getenv("POLYSYM_SCHED_BUDGET"); s != "" {
		fmt.Sscan(s, &e.schedBudget)
	}
	e.crossSem = make(chan struct{}, 4)
	e.findings = loadFindings()
	e.harnessFiles = findHarnessFiles(prop)
	if len(e.harnessFiles) == 0 {
		fmt.Fprintf(os.Stderr, "no harness files for %s\n", prop)
		os.Exit(2)
	}
	overlay := map[string][]byte{}
	var patterns []string
	for rel, files := range e.harnessFiles {
		pkg := pkgNameOf(rel)
		for _, f := range files {
			b, _ := os.ReadFile(f)
			overlay[filepath.Join(repoDir, rel, filepath.Base(f))] = b
		}
		overlay[filepath.Join(repoDir, rel, "zz_verif_shim.go")] = shimSource("sym", pkg)
		if rel == "." {
			patterns = append(patterns, ".")
		} else {
			patterns = append(patterns, "./"+rel)
		}
	}
	sort.Strings(patterns)
	cfg := &packages.Config{
		Mode:       packages.LoadAllSyntax,
		Dir:        repoDir,
		Overlay:    overlay,
		BuildFlags: []string{"-tags=verif_sym"},
		Env:        append(os.Environ(), "GOFLAGS=-mod=mod", "GOPROXY=off", "GOSUMDB=off", "GOTOOLCHAIN=local"),
	}
	pkgs, err := packages.Load(cfg, patterns...)
	if err != nil {
		fmt.Fprintln(os.Stderr, "load:", err)
		os.Exit(2)
	}
	bad := false
	packages.Visit(pkgs, nil, func(p *packages.Package) {
		for _, er := range p.Errors {
			fmt.Fprintln(os.Stderr, "load error:", er)
			bad = true
		}
	})
	if bad {
		fmt.Println("INCONCLUSIVE property=" + prop + " reason=repository or harness does not type-check")
		os.Exit(3)
	}
	prog, spkgs := ssautil.AllPackages(pkgs, ssa.InstantiateGenerics)
	prog.Build()
	e.prog = prog
	for _, sp := range spkgs {
		if sp == nil {
			continue
		}
		e.targets[sp] = true
		e.tpkgs = append(e.tpkgs, sp)
		for _, m := range sp.Members {
			if f, ok := m.(*ssa.Function); ok {
				pos := prog.Fset.Position(f.Pos())
				if filepath.Base(pos.Filename) == "zz_verif_shim.go" || (f.Name() == "vXMLScript" && strings.HasPrefix(filepath.Base(pos.Filename), "zz_verif_")) {
					e.prims[f] = true
				}
			}
		}
	}
	// every package of the module counts as a target for "functions encoded"
	for _, sp := range prog.AllPackages() {
		if strings.HasPrefix(sp.Pkg.Path(), modPath) {
			e.targets[sp] = true
		}
	}
	sort.Slice(e.tpkgs, func(i, j int) bool { return e.tpkgs[i].Pkg.Path() < e.tpkgs[j].Pkg.Path() })
	return e
}

// harnessFns lists Harness_<prop>_* and Selftest_<prop>_* functions.
func (e *Engine) harnessFns(prefix string) []*ssa.Function {
	var out []*ssa.Function
	for _, sp := range e.tpkgs {
		for name, m := range sp.Members {
			if f, ok := m.(*ssa.Function); ok && strings.HasPrefix(name, prefix+"_"+e.prop+"_") {
				out = append(out, f)
			}
		}
	}
	sort.Slice(out, func(i, j int) bool { return out[i].String() < out[j].String() })
	return out
}

func (e *Engine) relDirOf(f *ssa.Function) string {
	rel := strings.TrimPrefix(f.Pkg.Pkg.Path(), modPath)
	rel = strings.TrimPrefix(rel, "/")
	if rel == "" {
		return "."
	}
	return rel
}
