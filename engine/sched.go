package main

// Cooperative goroutine scheduler: simulated goroutines are real goroutines that
// pass a baton; control changes hands only at synchronisation operations, and
// the choice of the next runnable goroutine is a path decision (DESIGN.md 2.5).

import (
	"fmt"
	"go/types"

	"golang.org/x/tools/go/ssa"
)

type G struct {
	id    int
	wake  chan struct{}
	done  bool
	ready func() bool // nil = runnable
	cur   *Frame
	depth int
	name  string
}

type killed struct{}

// deviations from the default schedule are explored at the first N scheduling points only
const maxSchedChoicePoints = 24

type Sched struct {
	p      *Path
	gs     []*G
	cur    *G
	trace  []int
	abort  interface{}
	dead   bool
	budget int // remaining deviations from the default schedule
	lifo   bool
	points int
}

type sendItem struct {
	v     Value
	taken bool
}

type Chan struct {
	capacity int
	buf      []Value
	sendq    []*sendItem
	closed   bool
	closes   int
	sent     int
	id       int
}

func (p *Path) ensureSched() *Sched {
	if p.sched == nil {
		s := &Sched{p: p, budget: p.schedBudget}
		if p.schedBudget > 0 {
			// the default order among the other runnable goroutines: FIFO or LIFO (a path decision)
			s.lifo = p.Choose(2) == 1
		}
		g0 := &G{id: 0, wake: make(chan struct{}, 1), name: "main"}
		s.gs = []*G{g0}
		s.cur = g0
		p.sched = s
	}
	return p.sched
}

func (p *Path) makeChan(capacity int) *Chan {
	p.ensureSched()
	p.nChans++
	return &Chan{capacity: capacity, id: p.nChans}
}

func (s *Sched) runnable() []*G {
	var out []*G
	for _, g := range s.gs {
		if g.done {
			continue
		}
		if g.ready == nil || g.ready() {
			out = append(out, g)
		}
	}
	return out
}

// switchTo hands the baton to g and parks the current goroutine (unless exiting).
func (s *Sched) switchTo(g *G, exiting bool) {
	me := s.cur
	if g == me {
		return
	}
	me.cur = s.p.cur
	me.depth = s.p.depth
	s.cur = g
	s.p.cur = g.cur
	s.p.depth = g.depth
	g.wake <- struct{}{}
	if exiting {
		return
	}
	<-me.wake
	if s.dead {
		panic(killed{})
	}
	if me.id == 0 && s.abort != nil {
		a := s.abort
		s.abort = nil
		panic(a)
	}
}

// pick chooses the next goroutine to run among the runnable ones.
// preferCur: the current goroutine may continue (it is in the runnable set).
func (s *Sched) pick(rs []*G) *G {
	if len(rs) == 1 {
		return rs[0]
	}
	// default order: current first (run-to-block), then by id (FIFO) or reverse id (LIFO)
	ord := make([]*G, 0, len(rs))
	for _, g := range rs {
		if g == s.cur {
			ord = append(ord, g)
		}
	}
	if s.lifo {
		for i := len(rs) - 1; i >= 0; i-- {
			if rs[i] != s.cur {
				ord = append(ord, rs[i])
			}
		}
	} else {
		for _, g := range rs {
			if g != s.cur {
				ord = append(ord, g)
			}
		}
	}
	s.points++
	k := 0
	if s.budget > 0 && s.points <= maxSchedChoicePoints {
		k = s.p.Choose(len(ord))
		if k != 0 {
			s.budget--
		}
	}
	s.trace = append(s.trace, ord[k].id)
	return ord[k]
}

// yield is a scheduling point at which the current goroutine stays runnable.
func (s *Sched) yield() {
	rs := s.runnable()
	if len(rs) <= 1 {
		return
	}
	g := s.pick(rs)
	s.switchTo(g, false)
}

// block parks the current goroutine until cond holds.
func (s *Sched) block(cond func() bool, what string) {
	for !cond() {
		s.cur.ready = cond
		rs := s.runnable()
		if len(rs) == 0 {
			s.cur.ready = nil
			s.deadlock(what)
		}
		g := s.pick(rs)
		s.switchTo(g, false)
		s.cur.ready = nil
	}
}

func (s *Sched) deadlock(what string) {
	var st []string
	for _, g := range s.gs {
		if !g.done {
			st = append(st, fmt.Sprintf("g%d(%s)", g.id, g.name))
		}
	}
	msg := fmt.Sprintf("deadlock: all goroutines are blocked (%s); alive: %v", what, st)
	s.p.concurrencyViolation("deadlock", msg)
	panic(pathAbort{abViolationEnd, msg})
}

func (p *Path) concurrencyViolation(kind, msg string) {
	hit, _ := p.activeRegions(kind)
	r, m := p.queryModel()
	if r == Sat {
		p.recordViolation(kind, kind, msg, hit, m)
	}
}

func (p *Path) spawn(fn Value, args []Value, site *ssa.Go) {
	s := p.ensureSched()
	g := &G{id: len(s.gs), wake: make(chan struct{}, 1)}
	if f, ok := fn.(*ssa.Function); ok {
		g.name = f.Name()
	}
	s.gs = append(s.gs, g)
	if len(s.gs) > p.w.eng.maxGoroutines {
		if p.termStep != 0 {
			p.nonTermination(fmt.Sprintf("more than %d goroutines spawned", p.w.eng.maxGoroutines))
		}
		panic(pathAbort{abBudget, fmt.Sprintf("more than %d goroutines", p.w.eng.maxGoroutines)})
	}
	go func() {
		<-g.wake
		if s.dead {
			return
		}
		defer func() {
			r := recover()
			if _, ok := r.(killed); ok {
				return
			}
			if r != nil {
				if gp, ok := r.(goPanic); ok {
					// an unrecovered panic in any goroutine crashes the program
					func() {
						defer func() {
							if r2 := recover(); r2 != nil {
								r = r2
							}
						}()
						p.Panicked(gp)
						r = pathAbort{abViolationEnd, "panic in goroutine: " + gp.msg}
					}()
				}
				// hand the abort to the main goroutine
				s.abort = r
				g.done = true
				s.cur = s.gs[0]
				p.cur = s.gs[0].cur
				p.depth = s.gs[0].depth
				s.gs[0].wake <- struct{}{}
				return
			}
			// normal exit
			g.done = true
			rs := s.runnable()
			if len(rs) == 0 {
				// everything else is blocked: report the deadlock from the main goroutine
				s.abort = deadlockAbort{}
				s.cur = s.gs[0]
				p.cur = s.gs[0].cur
				p.depth = s.gs[0].depth
				s.gs[0].wake <- struct{}{}
				return
			}
			nx := s.pick(rs)
			s.switchTo(nx, true)
		}()
		p.call(fn, args, site)
	}()
	s.yield()
}

type deadlockAbort struct{}

func (s *Sched) killAll() {
	s.dead = true
	for _, g := range s.gs[1:] {
		if !g.done {
			select {
			case g.wake <- struct{}{}:
			default:
			}
		}
	}
}

// ---- channel operations -------------------------------------------------------

func (p *Path) chanSend(cv Value, v Value) {
	s := p.ensureSched()
	ch, _ := cv.(*Chan)
	s.yield()
	if ch == nil {
		s.block(func() bool { return false }, "send on nil channel")
	}
	if ch.closed {
		p.goPanicf("send on closed channel")
	}
	ch.sent++
	if ch.capacity > 0 {
		s.block(func() bool { return len(ch.buf) < ch.capacity || ch.closed }, "send on full channel")
		if ch.closed {
			p.goPanicf("send on closed channel")
		}
		ch.buf = append(ch.buf, v)
		return
	}
	it := &sendItem{v: v}
	ch.sendq = append(ch.sendq, it)
	s.block(func() bool { return it.taken || ch.closed }, "send on unbuffered channel with no receiver")
	if !it.taken {
		p.goPanicf("send on closed channel")
	}
}

func (p *Path) chanRecv(cv Value, et types.Type) (Value, Value) {
	s := p.ensureSched()
	ch, _ := cv.(*Chan)
	s.yield()
	if ch == nil {
		s.block(func() bool { return false }, "receive from nil channel")
	}
	s.block(func() bool { return len(ch.buf) > 0 || len(ch.sendq) > 0 || ch.closed }, "receive with no sender")
	if len(ch.buf) > 0 {
		v := ch.buf[0]
		ch.buf = ch.buf[1:]
		return v, true
	}
	if len(ch.sendq) > 0 {
		it := ch.sendq[0]
		ch.sendq = ch.sendq[1:]
		it.taken = true
		return it.v, true
	}
	return zero(et), false
}

func (p *Path) chanClose(cv Value) {
	s := p.ensureSched()
	ch, _ := cv.(*Chan)
	s.yield()
	if ch == nil {
		p.goPanicf("close of nil channel")
	}
	ch.closes++
	if ch.closed {
		p.goPanicf("close of closed channel")
	}
	ch.closed = true
}

// ---- sync.WaitGroup model ---------------------------------------------------------

type wgState struct{ n int }

func (p *Path) wg(ptr *Value) *wgState {
	if st, ok := p.side[ptr]; ok {
		return st.(*wgState)
	}
	st := &wgState{}
	p.side[ptr] = st
	return st
}

func (p *Path) wgAdd(ptr *Value, d int) {
	s := p.ensureSched()
	st := p.wg(ptr)
	st.n += d
	if st.n < 0 {
		p.goPanicf("sync: negative WaitGroup counter")
	}
	s.yield()
}

func (p *Path) wgWait(ptr *Value) {
	s := p.ensureSched()
	st := p.wg(ptr)
	s.yield()
	s.block(func() bool { return st.n == 0 }, "WaitGroup.Wait")
}

func (p *Path) nonTermination(msg string) {
	p.concurrencyViolation("nontermination", msg)
	panic(pathAbort{abViolationEnd, msg})
}
