package main

// Harness primitives (DESIGN.md 2.6): calls to functions declared in the
// injected shim file zz_verif_shim.go are intercepted here.

import (
	"fmt"
	"go/types"
	"math"
	"os"
	"strings"

	"golang.org/x/tools/go/ssa"
)

func asBoolVal(v Value) Value {
	switch v.(type) {
	case bool, *Term:
		return v
	}
	panic(fmt.Sprintf("expected bool, got %T", v))
}

func (p *Path) boolTerm(v Value) *Term {
	switch x := v.(type) {
	case bool:
		return p.tt().Bool(x)
	case *Term:
		return x
	}
	panic(fmt.Sprintf("boolTerm %T", v))
}

func concreteString(v Value, what string) string {
	s, ok := v.(string)
	if !ok {
		panic(unsupported("%s must be a concrete string", what))
	}
	return s
}

func concreteInt(v Value, what string) int64 {
	i, ok := v.(int64)
	if !ok {
		panic(unsupported("%s must be a concrete integer", what))
	}
	return i
}

func (p *Path) prim(fn *ssa.Function, args []Value) Value {
	tt := p.tt()
	switch fn.Name() {
	case "vChoice":
		n := int(concreteInt(args[0], "vChoice bound"))
		k := p.Choose(n)
		p.draws = append(p.draws, Draw{Kind: "choice", N: n, Val: k})
		return int64(k)
	case "vTier":
		if p.w.eng.tier == "thorough" {
			return args[1]
		}
		return args[0]
	case "vBytes":
		return p.DrawBytes(int(concreteInt(args[0], "vBytes length")), concreteString(args[1], "vBytes domain"))
	case "vByte":
		s := p.DrawBytes(1, concreteString(args[0], "vByte domain"))
		return strAt(s, 0)
	case "vInt":
		return p.DrawInt(concreteInt(args[0], "vInt lo"), concreteInt(args[1], "vInt hi"), 64)
	case "vBool":
		return p.DrawBool()
	case "vFloat":
		lo, hi := args[0].(float64), args[1].(float64)
		if !p.realMode {
			panic(unsupported("vFloat outside real mode"))
		}
		return p.DrawReal(lo, hi)
	case "vRealMode":
		p.realMode = true
		return nil
	case "vAssume":
		p.Assume(asBoolVal(args[0]))
		return nil
	case "vAssert":
		p.Assert(asBoolVal(args[0]), concreteString(args[1], "clause name"))
		return nil
	case "vCover":
		p.Cover(concreteString(args[0], "cover label"), asBoolVal(args[1]))
		return nil
	case "vFinding":
		p.regions = append(p.regions, region{id: concreteString(args[0], "finding id"), cond: asBoolVal(args[1])})
		return nil
	case "vFindingClause":
		p.regions = append(p.regions, region{id: concreteString(args[0], "finding id"), clause: concreteString(args[1], "clause"), cond: asBoolVal(args[2])})
		return nil
	case "vTerminates":
		p.termStep = int(concreteInt(args[0], "vTerminates budget"))
		if p.termStep > 0 && p.termStep < p.maxSteps {
			p.maxSteps = p.steps + p.termStep
		}
		return nil
	case "vAnd":
		var acc Value = true
		for _, a := range args[0].(Slice).A {
			acc = p.boolAnd(acc, a)
		}
		return acc
	case "vOr":
		var acc Value = false
		for _, a := range args[0].(Slice).A {
			acc = p.boolOr(acc, a)
		}
		return acc
	case "vNot":
		return p.boolNot(args[0])
	case "vImplies":
		return p.boolOr(p.boolNot(args[0]), args[1])
	case "vIff":
		return termOrBool(tt.Eq(p.boolTerm(args[0]), p.boolTerm(args[1])))
	case "vIteByte":
		return termOrInt(tt.Ite(p.boolTerm(args[0]), p.byteTerm(args[1]), p.byteTerm(args[2])), intInfo{8, false})
	case "vIteInt":
		it := types.Typ[types.Int]
		return termOrInt(tt.Ite(p.boolTerm(args[0]), p.toTerm(args[1], it), p.toTerm(args[2], it)), intInfo{64, true})
	case "vFloatIsSpecial":
		if f, ok := args[0].(float64); ok {
			return math.IsNaN(f) || math.IsInf(f, 0)
		}
		return false
	case "vEqFloat":
		ft := types.Typ[types.Float64]
		if !p.realMode {
			return p.equals(ft, args[0], args[1])
		}
		return termOrBool(tt.Eq(p.toTerm(args[0], ft), p.toTerm(args[1], ft)))
	case "vIteFloat":
		c := p.boolTerm(args[0])
		if c.IsConst() {
			if c.C != 0 {
				return args[1]
			}
			return args[2]
		}
		ft := types.Typ[types.Float64]
		if af, ok := args[1].(float64); ok {
			if bf, ok := args[2].(float64); ok && af == bf {
				return af
			}
		}
		if !p.realMode {
			panic(unsupported("vIteFloat outside real mode"))
		}
		return tt.Ite(c, p.toTerm(args[1], ft), p.toTerm(args[2], ft))
	case "vIteStr":
		c := p.boolTerm(args[0])
		if c.IsConst() {
			if c.C != 0 {
				return args[1]
			}
			return args[2]
		}
		r, ok := p.mergeIte(c, args[1], args[2], types.Typ[types.String])
		if !ok {
			panic(unsupported("vIteStr on strings of different length"))
		}
		return r
	case "vEqStr":
		return p.strEq(args[0], args[1])
	case "vLexLE":
		return p.strLess(args[0], args[1], true)
	case "vLexLT":
		return p.strLess(args[0], args[1], false)
	case "vEqInt":
		return p.equals(types.Typ[types.Int], args[0], args[1])
	case "vLeInt":
		it := types.Typ[types.Int]
		xi, xok := args[0].(int64)
		yi, yok := args[1].(int64)
		if xok && yok {
			return xi <= yi
		}
		return termOrBool(tt.Cmp(OpSle, p.toTerm(args[0], it), p.toTerm(args[1], it)))
	case "vLtInt":
		it := types.Typ[types.Int]
		xi, xok := args[0].(int64)
		yi, yok := args[1].(int64)
		if xok && yok {
			return xi < yi
		}
		return termOrBool(tt.Cmp(OpSlt, p.toTerm(args[0], it), p.toTerm(args[1], it)))
	case "vTable":
		// vTable(table string, idx byte) byte : table[idx] as an ITE chain
		tab := concreteString(args[0], "vTable table")
		return p.tableLookup(tab, args[1])
	case "vIsConcrete":
		return !isSymDeep(args[0])
	case "vPanics":
		return p.primPanics(args[0])
	case "vPanicMsg":
		return p.lastPanicMsg
	case "vOut":
		p.out = append(p.out, p.renderOut(args[0]))
		return nil
	case "vObserveMap":
		if m, ok := args[0].(*Map); ok && m != nil {
			m.Observe = true
		}
		return nil
	case "vRepeat":
		return int64(1)
	case "vUnobserveMap":
		if m, ok := args[0].(*Map); ok && m != nil {
			m.Observe = false
		}
		return nil
	case "vRandTrace":
		return Slice{A: append([]Value(nil), p.randTrace...)}
	case "vPred":
		// vPred(name string, x string) bool: uninterpreted deterministic predicate of a concrete string
		name := concreteString(args[0], "vPred name")
		x := concreteString(args[1], "vPred argument (must be concrete on the path)")
		return p.predVar(name, x)
	case "vConcretizeStr":
		return p.concretizeStr(args[0])
	case "vXMLScript":
		return Iface{T: p.w.eng.namedType("io", "Reader"), V: &Native{V: &xmlScript{events: concreteString(args[0], "xml event script")}}}
	case "vJSONText":
		p.jsonText = true
		return nil
	case "vSchedules":
		if p.sched != nil {
			panic(unsupported("vSchedules must be called before the first goroutine / channel is created"))
		}
		p.schedBudget = int(concreteInt(args[0], "vSchedules budget"))
		if e := p.w.eng.schedBudget; e >= 0 && os.Getenv("POLYSYM_SCHED_BUDGET") != "" {
			p.schedBudget = e
		}
		return nil
	case "vSeed":
		return int64(0)
	case "vDepth":
		return int64(p.depth)
	case "vSteps":
		return int64(p.steps)
	case "vChanStats":
		// (sent, closes)
		ch := args[0].(*Chan)
		return Tuple{int64(ch.sent), int64(ch.closes)}
	case "vSchedPoints":
		if p.sched == nil {
			return int64(0)
		}
		return int64(p.sched.points)
	}
	panic(unsupported("unknown harness primitive %s", fn.Name()))
}

func (p *Path) renderOut(v Value) string {
	switch x := v.(type) {
	case string:
		return x
	case *SymStr:
		return describe(x)
	}
	return describe(v)
}

func (p *Path) tableLookup(tab string, idx Value) Value {
	switch x := idx.(type) {
	case int64:
		if int(x) >= len(tab) {
			return int64(0)
		}
		return int64(tab[x])
	case *Term:
		tt := p.tt()
		var res *Term = tt.Const(BV(8), 0)
		var cands []uint64
		if x.SV != nil {
			cands = p.tabValues(x)
		} else {
			for i := 0; i < len(tab) && i < 256; i++ {
				cands = append(cands, uint64(i))
			}
		}
		for i := len(cands) - 1; i >= 0; i-- {
			c := cands[i]
			var tv uint64
			if int(c) < len(tab) {
				tv = uint64(tab[c])
			}
			res = tt.Ite(tt.Eq(x, tt.Const(x.S, c)), tt.Const(BV(8), tv), res)
		}
		return termOrInt(res, intInfo{8, false})
	}
	panic("tableLookup")
}

func (p *Path) predVar(name, x string) Value {
	key := name + "\x00" + x
	if v, ok := p.preds[key]; ok {
		return v
	}
	vn := fmt.Sprintf("q%d_%s", len(p.vars), sanitize(name))
	v := p.tt().NewVar(vn, BoolSort, []uint64{0, 1})
	p.vars = append(p.vars, v)
	p.draws = append(p.draws, Draw{Kind: "bool", Dom: "pred:" + name + ":" + x, vars: []*Var{v}})
	p.preds[key] = v.T
	return v.T
}

func sanitize(s string) string {
	var sb strings.Builder
	for _, c := range s {
		if (c >= 'a' && c <= 'z') || (c >= 'A' && c <= 'Z') || (c >= '0' && c <= '9') {
			sb.WriteRune(c)
		} else {
			sb.WriteByte('_')
		}
	}
	return sb.String()
}

// concretizeStr forks until every byte of the string is concrete.
func (p *Path) concretizeStr(v Value) Value {
	s, ok := v.(*SymStr)
	if !ok {
		return v
	}
	out := make([]byte, len(s.B))
	for i, b := range s.B {
		switch x := b.(type) {
		case int64:
			out[i] = byte(x)
		case *Term:
			out[i] = byte(p.Concretize(x, "string byte"))
		}
	}
	return string(out)
}

// primPanics runs f and reports whether it panicked (Go-level panic only).
func (p *Path) primPanics(f Value) (res Value) {
	depth := p.depth
	cur := p.cur
	defer func() {
		if r := recover(); r != nil {
			if gp, ok := r.(goPanic); ok {
				p.depth = depth
				p.cur = cur
				p.lastPanicMsg = gp.msg
				res = true
				return
			}
			panic(r)
		}
	}()
	p.call(f, nil, nil)
	return false
}
