package main

// Values of the symbolic interpreter.
//
//   bool                       concrete bool
//   int64                      concrete integer of any Go integer type (bit pattern,
//                              normalised to the static type's width/signedness)
//   float64                    concrete float (float32 is kept as float64 rounded)
//   string                     fully concrete string
//   *Term                      symbolic scalar (Bool, BV of the type's width, Real)
//   *SymStr                    string of concrete length with >= 1 symbolic byte
//   Struct / Array             aggregates (copied on load/store)
//   Slice                      Go slice of Value cells (len/cap are Go's own)
//   *Value                     pointer to a cell
//   *Map, Iface, *Closure, *ssa.Function, *ssa.Builtin, Tuple, *Chan, *Native

import (
	"fmt"
	"go/types"
	"strings"

	"golang.org/x/tools/go/ssa"
)

type Value = interface{}

type SymStr struct{ B []Value } // each element int64 (0..255) or *Term (BV8)

type Struct []Value
type Array []Value
type Slice struct{ A []Value } // A == nil: nil slice
type Tuple []Value

type Iface struct {
	T types.Type // dynamic type; nil => nil interface
	V Value
}

type Closure struct {
	Fn  *ssa.Function
	Env []Value
}

// Native wraps an opaque Go object (e.g. *regexp.Regexp, a native error).
type Native struct{ V interface{} }

// BoundMethod is a method value on a native receiver (err.Error etc.).
type BoundMethod struct {
	Recv Value
	Fn   *ssa.Function
}

type mapEntry struct {
	K, V Value
	Del  bool
}

type Map struct {
	KT, VT  types.Type
	Entries []*mapEntry
	idx     map[interface{}]*mapEntry // concrete hashable keys only
	symKeys bool                      // some key is symbolic
	Observe bool                      // iteration order forked over permutations
}

func isSym(v Value) bool {
	switch v.(type) {
	case *Term, *SymStr:
		return true
	}
	return false
}

// ---- strings ---------------------------------------------------------------

func strLen(v Value) int {
	switch s := v.(type) {
	case string:
		return len(s)
	case *SymStr:
		return len(s.B)
	}
	panic(fmt.Sprintf("strLen: %T", v))
}

func strAt(v Value, i int) Value {
	switch s := v.(type) {
	case string:
		return int64(s[i])
	case *SymStr:
		return s.B[i]
	}
	panic(fmt.Sprintf("strAt: %T", v))
}

func strBytes(v Value) []Value {
	switch s := v.(type) {
	case string:
		out := make([]Value, len(s))
		for i := 0; i < len(s); i++ {
			out[i] = int64(s[i])
		}
		return out
	case *SymStr:
		return s.B
	}
	panic(fmt.Sprintf("strBytes: %T", v))
}

// mkStr normalises a byte vector to string (all concrete) or *SymStr.
func mkStr(bs []Value) Value {
	allc := true
	for _, b := range bs {
		if _, ok := b.(int64); !ok {
			allc = false
			break
		}
	}
	if allc {
		var sb strings.Builder
		sb.Grow(len(bs))
		for _, b := range bs {
			sb.WriteByte(byte(b.(int64)))
		}
		return sb.String()
	}
	return &SymStr{B: bs}
}

func strSlice(v Value, lo, hi int) Value {
	switch s := v.(type) {
	case string:
		return s[lo:hi]
	case *SymStr:
		return mkStr(s.B[lo:hi:hi])
	}
	panic("strSlice")
}

func strConcat(a, b Value) Value {
	as, aok := a.(string)
	bs, bok := b.(string)
	if aok && bok {
		return as + bs
	}
	if aok && as == "" {
		return b
	}
	if bok && bs == "" {
		return a
	}
	x := strBytes(a)
	y := strBytes(b)
	out := make([]Value, 0, len(x)+len(y))
	out = append(out, x...)
	out = append(out, y...)
	return mkStr(out)
}

// ---- zero values, copying --------------------------------------------------

func zero(t types.Type) Value {
	switch t := t.(type) {
	case *types.Basic:
		if t.Kind() == types.UntypedNil {
			panic("untyped nil has no zero value")
		}
		if t.Info()&types.IsNumeric != 0 {
			if t.Info()&types.IsFloat != 0 {
				return float64(0)
			}
			if t.Info()&types.IsComplex != 0 {
				panic(unsupported("complex numbers"))
			}
			return int64(0)
		}
		switch t.Kind() {
		case types.Bool, types.UntypedBool:
			return false
		case types.String, types.UntypedString:
			return ""
		case types.UnsafePointer:
			return (*Value)(nil)
		}
		panic(fmt.Sprint("zero for unexpected basic type: ", t))
	case *types.Pointer:
		return (*Value)(nil)
	case *types.Array:
		a := make(Array, t.Len())
		for i := range a {
			a[i] = zero(t.Elem())
		}
		return a
	case *types.Named:
		return zero(t.Underlying())
	case *types.Alias:
		return zero(types.Unalias(t))
	case *types.Interface:
		return Iface{}
	case *types.Slice:
		return Slice{}
	case *types.Struct:
		s := make(Struct, t.NumFields())
		for i := range s {
			s[i] = zero(t.Field(i).Type())
		}
		return s
	case *types.Tuple:
		if t.Len() == 1 {
			return zero(t.At(0).Type())
		}
		s := make(Tuple, t.Len())
		for i := range s {
			s[i] = zero(t.At(i).Type())
		}
		return s
	case *types.Chan:
		return (*Chan)(nil)
	case *types.Map:
		return (*Map)(nil)
	case *types.Signature:
		return (*Closure)(nil)
	case *types.TypeParam:
		panic(unsupported("type parameter zero value"))
	}
	panic(fmt.Sprint("zero: unexpected ", t))
}

func copyVal(v Value) Value {
	switch v := v.(type) {
	case Struct:
		a := make(Struct, len(v))
		for i, x := range v {
			a[i] = copyVal(x)
		}
		return a
	case Array:
		a := make(Array, len(v))
		for i, x := range v {
			a[i] = copyVal(x)
		}
		return a
	}
	return v
}

// ---- integer normalisation ---------------------------------------------------

type intInfo struct {
	W      int
	Signed bool
}

func basicOf(t types.Type) *types.Basic {
	b, _ := t.Underlying().(*types.Basic)
	return b
}

func intInfoOf(t types.Type) (intInfo, bool) {
	b := basicOf(t)
	if b == nil || b.Info()&types.IsInteger == 0 {
		return intInfo{}, false
	}
	switch b.Kind() {
	case types.Int8:
		return intInfo{8, true}, true
	case types.Int16:
		return intInfo{16, true}, true
	case types.Int32:
		return intInfo{32, true}, true
	case types.Int64, types.Int, types.UntypedInt, types.UntypedRune:
		return intInfo{64, true}, true
	case types.Uint8:
		return intInfo{8, false}, true
	case types.Uint16:
		return intInfo{16, false}, true
	case types.Uint32:
		return intInfo{32, false}, true
	case types.Uint64, types.Uint, types.Uintptr:
		return intInfo{64, false}, true
	}
	return intInfo{}, false
}

func normInt(v int64, ii intInfo) int64 {
	if ii.W >= 64 {
		return v
	}
	if ii.Signed {
		sh := uint(64 - ii.W)
		return (v << sh) >> sh
	}
	return v & int64(mask(ii.W))
}

func isString(t types.Type) bool {
	b := basicOf(t)
	return b != nil && b.Info()&types.IsString != 0
}

func isFloat(t types.Type) bool {
	b := basicOf(t)
	return b != nil && b.Info()&types.IsFloat != 0
}

func isBool(t types.Type) bool {
	b := basicOf(t)
	return b != nil && b.Info()&types.IsBoolean != 0
}

// ---- maps -------------------------------------------------------------------

func hashableKey(k Value) (interface{}, bool) {
	switch k := k.(type) {
	case int64, string, bool, float64:
		return k, true
	case Iface:
		if k.T == nil {
			return "<nil-iface>", true
		}
		if h, ok := hashableKey(k.V); ok {
			return fmt.Sprintf("%s|%v", k.T.String(), h), true
		}
	case *Value:
		return k, true
	}
	return nil, false
}

func newMap(kt, vt types.Type) *Map {
	return &Map{KT: kt, VT: vt, idx: map[interface{}]*mapEntry{}}
}

func (m *Map) Len() int {
	if m == nil {
		return 0
	}
	n := 0
	for _, e := range m.Entries {
		if !e.Del {
			n++
		}
	}
	return n
}

func (m *Map) live() []*mapEntry {
	if m == nil {
		return nil
	}
	var out []*mapEntry
	for _, e := range m.Entries {
		if !e.Del {
			out = append(out, e)
		}
	}
	return out
}

// describe renders a value for samples / diagnostics.
func describe(v Value) string {
	switch v := v.(type) {
	case nil:
		return "nil"
	case string:
		return fmt.Sprintf("%q", v)
	case *SymStr:
		var sb strings.Builder
		sb.WriteString("sym\"")
		for _, b := range v.B {
			if c, ok := b.(int64); ok {
				if c >= 32 && c < 127 {
					sb.WriteByte(byte(c))
				} else {
					fmt.Fprintf(&sb, "\\x%02x", c)
				}
			} else {
				sb.WriteByte('?')
			}
		}
		sb.WriteString("\"")
		return sb.String()
	case *Term:
		return "<sym " + v.S.String() + ">"
	case Struct:
		var p []string
		for _, x := range v {
			p = append(p, describe(x))
		}
		return "{" + strings.Join(p, ", ") + "}"
	case Array:
		var p []string
		for _, x := range v {
			p = append(p, describe(x))
		}
		return "[" + strings.Join(p, ", ") + "]"
	case Slice:
		var p []string
		for _, x := range v.A {
			p = append(p, describe(x))
		}
		return "[]{" + strings.Join(p, ", ") + "}"
	case Iface:
		if v.T == nil {
			return "nil"
		}
		return "iface(" + v.T.String() + ":" + describe(v.V) + ")"
	}
	return fmt.Sprintf("%v", v)
}
