package main

// Maps as insertion-ordered association lists; symbolic keys are compared with
// equality terms, lookups of mergeable values become ITE chains (DESIGN.md 2.2).

import (
	"fmt"
	"go/types"
)

// mergeIte builds ite(c, a, b) for values of the same shape.
func (p *Path) mergeIte(c *Term, a, b Value, t types.Type) (Value, bool) {
	tt := p.tt()
	switch ut := t.Underlying().(type) {
	case *types.Basic:
		switch {
		case ut.Info()&types.IsString != 0:
			if strLen(a) != strLen(b) {
				return nil, false
			}
			x, y := strBytes(a), strBytes(b)
			out := make([]Value, len(x))
			for i := range x {
				xc, xok := x[i].(int64)
				yc, yok := y[i].(int64)
				if xok && yok && xc == yc {
					out[i] = xc
					continue
				}
				out[i] = termOrInt(tt.Ite(c, p.byteTerm(x[i]), p.byteTerm(y[i])), intInfo{8, false})
			}
			return mkStr(out), true
		case ut.Info()&types.IsBoolean != 0:
			return termOrBool(tt.Ite(c, p.toTerm(a, t), p.toTerm(b, t))), true
		case ut.Info()&types.IsInteger != 0:
			ac, aok := a.(int64)
			bc, bok := b.(int64)
			if aok && bok && ac == bc {
				return a, true
			}
			ii, _ := intInfoOf(t)
			return termOrInt(tt.Ite(c, p.toTerm(a, t), p.toTerm(b, t)), ii), true
		case ut.Info()&types.IsFloat != 0:
			af, aok := a.(float64)
			bf, bok := b.(float64)
			if aok && bok && af == bf {
				return a, true
			}
			if !p.realMode {
				return nil, false
			}
			return tt.Ite(c, p.toTerm(a, t), p.toTerm(b, t)), true
		}
	case *types.Struct:
		as, bs := a.(Struct), b.(Struct)
		out := make(Struct, len(as))
		for i := range as {
			v, ok := p.mergeIte(c, as[i], bs[i], ut.Field(i).Type())
			if !ok {
				return nil, false
			}
			out[i] = v
		}
		return out, true
	case *types.Array:
		as, bs := a.(Array), b.(Array)
		out := make(Array, len(as))
		for i := range as {
			v, ok := p.mergeIte(c, as[i], bs[i], ut.Elem())
			if !ok {
				return nil, false
			}
			out[i] = v
		}
		return out, true
	}
	return nil, false
}

func (p *Path) mapLookup(m *Map, key Value, mt *types.Map) (Value, Value) {
	zv := zero(mt.Elem())
	if m == nil {
		return zv, false
	}
	if !m.symKeys && !isSymDeep(key) {
		if hk, ok := hashableKey(key); ok {
			if e, ok := m.idx[hk]; ok && !e.Del {
				return copyVal(e.V), true
			}
			return zv, false
		}
	}
	type cand struct {
		e  *mapEntry
		eq *Term
	}
	var cands []cand
	for _, e := range m.Entries {
		if e.Del {
			continue
		}
		eq := p.equals(mt.Key(), key, e.K)
		switch q := eq.(type) {
		case bool:
			if q {
				if len(cands) == 0 {
					return copyVal(e.V), true
				}
				cands = append(cands, cand{e, p.tt().True})
			}
		case *Term:
			cands = append(cands, cand{e, q})
		}
		if len(cands) > 0 && cands[len(cands)-1].eq.IsConst() {
			break
		}
	}
	if len(cands) == 0 {
		return zv, false
	}
	// try an ITE chain (with the zero value for "absent")
	build := func(base Value, baseOk Value, cs []cand) (Value, Value, bool) {
		res, okT := base, baseOk
		for i := len(cs) - 1; i >= 0; i-- {
			c := cs[i]
			if c.eq.IsConst() {
				res = copyVal(c.e.V)
				okT = true
				continue
			}
			r, ok := p.mergeIte(c.eq, c.e.V, res, mt.Elem())
			if !ok {
				return nil, nil, false
			}
			res = r
			okT = p.boolOr(c.eq, okT)
		}
		return res, okT, true
	}
	if res, okT, merged := build(zv, false, cands); merged {
		return res, okT
	}
	// the zero value has a different shape: decide presence first, then merge the candidates
	var present Value = false
	for _, c := range cands {
		present = p.boolOr(present, termOrBool(c.eq))
	}
	if !p.decideVal(present) {
		return zv, false
	}
	last := cands[len(cands)-1]
	if res, _, merged := build(copyVal(last.e.V), true, cands[:len(cands)-1]); merged {
		return res, true
	}
	// fork per candidate
	for _, c := range cands {
		if p.Decide(c.eq) {
			return copyVal(c.e.V), true
		}
	}
	panic(pathAbort{abAssumed, "map lookup: no candidate feasible"})
}

func isSymDeep(v Value) bool {
	switch x := v.(type) {
	case *Term, *SymStr:
		return true
	case Struct:
		for _, f := range x {
			if isSymDeep(f) {
				return true
			}
		}
	case Array:
		for _, f := range x {
			if isSymDeep(f) {
				return true
			}
		}
	case Iface:
		return isSymDeep(x.V)
	}
	return false
}

func (p *Path) mapStore(m *Map, key, val Value) {
	ks := isSymDeep(key)
	if !m.symKeys && !ks {
		if hk, ok := hashableKey(key); ok {
			if e, ok := m.idx[hk]; ok && !e.Del {
				e.V = val
				return
			}
			e := &mapEntry{K: key, V: val}
			m.Entries = append(m.Entries, e)
			m.idx[hk] = e
			return
		}
	}
	for _, e := range m.Entries {
		if e.Del {
			continue
		}
		eq := p.equals(m.KT, key, e.K)
		switch q := eq.(type) {
		case bool:
			if q {
				e.V = val
				return
			}
		case *Term:
			if p.Decide(q) {
				e.V = val
				return
			}
		}
	}
	e := &mapEntry{K: key, V: val}
	m.Entries = append(m.Entries, e)
	if ks {
		m.symKeys = true
	} else if hk, ok := hashableKey(key); ok {
		m.idx[hk] = e
	}
}

func (p *Path) mapDelete(m *Map, key Value) {
	for _, e := range m.Entries {
		if e.Del {
			continue
		}
		eq := p.equals(m.KT, key, e.K)
		switch q := eq.(type) {
		case bool:
			if q {
				e.Del = true
				if hk, ok := hashableKey(e.K); ok {
					delete(m.idx, hk)
				}
				return
			}
		case *Term:
			if p.Decide(q) {
				e.Del = true
				return
			}
		}
	}
}

func (m *Map) String() string { return fmt.Sprintf("map[%d]", m.Len()) }
