package main

// Hash-consed SMT term DAG with constant folding, single-variable value tables
// (the "domain mask" fast path of DESIGN.md 2.2) and SMT-LIB2 printing.

import (
	"fmt"
	"math/big"
	"sort"
	"strings"
)

type SortKind uint8

const (
	SBool SortKind = iota
	SBV
	SReal
)

type Sort struct {
	K SortKind
	W int // bit width for SBV
}

var BoolSort = Sort{SBool, 0}
var RealSort = Sort{SReal, 0}

func BV(w int) Sort { return Sort{SBV, w} }

func (s Sort) String() string {
	switch s.K {
	case SBool:
		return "Bool"
	case SReal:
		return "Real"
	}
	return fmt.Sprintf("(_ BitVec %d)", s.W)
}

type Op uint8

const (
	OpConst Op = iota
	OpVar
	OpNot
	OpAnd
	OpOr
	OpIte
	OpEq
	OpUlt
	OpUle
	OpSlt
	OpSle
	OpAdd
	OpSub
	OpMul
	OpUdiv
	OpUrem
	OpSdiv
	OpSrem
	OpBAnd
	OpBOr
	OpBXor
	OpBNot
	OpNeg
	OpShl
	OpLshr
	OpAshr
	OpZext    // to sort width
	OpSext    // to sort width
	OpExtract // hi, lo
	OpConcat
	OpUF // uninterpreted function application, name
	OpHexNib // BV4 -> BV8: lower-case hex digit of a nibble (injective)
	// reals
	OpRAdd
	OpRSub
	OpRMul
	OpRDiv
	OpRNeg
	OpRLt
	OpRLe
	OpRConst
	OpToReal // signed BV -> Real (via bv2int), used for int->float64 conversion in real mode
	OpRealToBV // Real -> signed BV (truncation toward zero), float64->int conversion in real mode
)

var opNames = map[Op]string{
	OpNot: "not", OpAnd: "and", OpOr: "or", OpIte: "ite", OpEq: "=",
	OpUlt: "bvult", OpUle: "bvule", OpSlt: "bvslt", OpSle: "bvsle",
	OpAdd: "bvadd", OpSub: "bvsub", OpMul: "bvmul", OpUdiv: "bvudiv", OpUrem: "bvurem",
	OpSdiv: "bvsdiv", OpSrem: "bvsrem", OpBAnd: "bvand", OpBOr: "bvor", OpBXor: "bvxor",
	OpBNot: "bvnot", OpNeg: "bvneg", OpShl: "bvshl", OpLshr: "bvlshr", OpAshr: "bvashr",
	OpConcat: "concat",
	OpRAdd:   "+", OpRSub: "-", OpRMul: "*", OpRDiv: "/", OpRNeg: "-", OpRLt: "<", OpRLe: "<=",
}

// Var describes a declared symbolic variable.
type Var struct {
	Name string
	S    Sort
	Dom  []uint64 // enumerable domain (sorted, <= 256 values) or nil
	T    *Term
	Idx  int // index in table's variable list
}

type Term struct {
	ID   int
	Op   Op
	S    Sort
	Args []*Term
	C    uint64   // constant value (bool: 0/1)
	R    *big.Rat // real constant
	Hi   int
	Lo   int
	Name string // var / uf name
	V    *Var   // for OpVar

	// single-variable fast path: SV is the unique enumerable variable in the
	// support and Tab[i] the value of the term when SV = SV.Dom[i].
	SV    *Var
	Tab   []uint64
	Multi bool // support is not a single enumerable variable (and not empty)
	RawVar *Var   // for raw domain constraints: the variable they constrain
	sup    []*Var // cached support (variables), see SupportList
	supOK  bool
	NoEval bool // contains an uninterpreted function or real arithmetic: cannot be evaluated under a model

	defined bool // emitted to the solver as define-fun (per solver generation)
	gen     int
}

func (t *Term) IsConst() bool { return t.Op == OpConst }

// TermTable hash-conses terms; one per worker.
type TermTable struct {
	tab   map[string]*Term
	all   []*Term
	vars  map[string]*Var
	True  *Term
	False *Term
	ufs   map[string]string // uf name -> declaration
	canon map[string]*Term  // single-variable terms by (variable, value table)
}

func NewTermTable() *TermTable {
	tt := &TermTable{tab: map[string]*Term{}, vars: map[string]*Var{}, ufs: map[string]string{}, canon: map[string]*Term{}}
	tt.True = tt.mk(&Term{Op: OpConst, S: BoolSort, C: 1})
	tt.False = tt.mk(&Term{Op: OpConst, S: BoolSort, C: 0})
	return tt
}

func (tt *TermTable) key(t *Term) string {
	var sb strings.Builder
	fmt.Fprintf(&sb, "%d|%d.%d|%x|%d.%d|%s", t.Op, t.S.K, t.S.W, t.C, t.Hi, t.Lo, t.Name)
	if t.R != nil {
		sb.WriteString("|r" + t.R.String())
	}
	for _, a := range t.Args {
		fmt.Fprintf(&sb, "|%d", a.ID)
	}
	return sb.String()
}

// mkRaw creates a node that takes no part in the single-variable fast path and
// is never folded (used for the domain constraints handed to the solver).
func (tt *TermTable) mkRaw(t *Term) *Term {
	t.Name = "raw"
	k := tt.key(t)
	if e, ok := tt.tab[k]; ok {
		return e
	}
	t.ID = len(tt.all)
	tt.all = append(tt.all, t)
	tt.tab[k] = t
	t.Multi = true
	return t
}

func (tt *TermTable) mk(t *Term) *Term {
	k := tt.key(t)
	if e, ok := tt.tab[k]; ok {
		return e
	}
	t.ID = len(tt.all)
	tt.all = append(tt.all, t)
	tt.tab[k] = t
	if t.Op == OpUF || t.S.K == SReal {
		t.NoEval = true
	}
	for _, a := range t.Args {
		if a.NoEval {
			t.NoEval = true
		}
	}
	tt.computeTable(t)
	if t.Op != OpVar && t.Op != OpConst && t.SV != nil && (t.S.K == SBool || t.S.W <= 64) {
		// constant on the variable's whole (static) domain: fold
		if v, ok := constTab(t); ok {
			c := tt.Const(t.S, v)
			tt.tab[k] = c
			return c
		}
		// single-variable terms with the same value table are the same function of that
		// variable: keep one representative (semantic hash-consing)
		var sb strings.Builder
		fmt.Fprintf(&sb, "%s|%d.%d|", t.SV.Name, t.S.K, t.S.W)
		for _, x := range t.Tab {
			fmt.Fprintf(&sb, "%x,", x)
		}
		ck := sb.String()
		if rep, ok := tt.canon[ck]; ok {
			tt.tab[k] = rep
			return rep
		}
		tt.canon[ck] = t
	}
	return t
}

func mask(w int) uint64 {
	if w >= 64 {
		return ^uint64(0)
	}
	return (uint64(1) << uint(w)) - 1
}

func sext(v uint64, w int) int64 {
	if w >= 64 {
		return int64(v)
	}
	sh := uint(64 - w)
	return int64(v<<sh) >> sh
}

func (tt *TermTable) Const(s Sort, v uint64) *Term {
	if s.K == SBool {
		if v != 0 {
			return tt.True
		}
		return tt.False
	}
	return tt.mk(&Term{Op: OpConst, S: s, C: v & mask(s.W)})
}

func (tt *TermTable) Bool(b bool) *Term {
	if b {
		return tt.True
	}
	return tt.False
}

func (tt *TermTable) RConst(r *big.Rat) *Term {
	return tt.mk(&Term{Op: OpRConst, S: RealSort, R: new(big.Rat).Set(r)})
}

func (tt *TermTable) RConstF(f float64) *Term {
	r := new(big.Rat)
	r.SetFloat64(f)
	return tt.RConst(r)
}

// NewVar declares (or returns) a variable. dom may be nil.
func (tt *TermTable) NewVar(name string, s Sort, dom []uint64) *Var {
	if v, ok := tt.vars[name]; ok {
		// same name must mean same sort; domain may differ between paths -> distinct names are used by callers
		return v
	}
	v := &Var{Name: name, S: s, Idx: len(tt.vars)}
	if dom != nil && len(dom) <= 256 {
		d := append([]uint64(nil), dom...)
		sort.Slice(d, func(i, j int) bool { return d[i] < d[j] })
		v.Dom = d
	}
	t := &Term{Op: OpVar, S: s, Name: name, V: v}
	v.T = tt.mk(t)
	tt.vars[name] = v
	return v
}

// computeTable fills SV/Tab/Multi for a freshly created node.
func (tt *TermTable) computeTable(t *Term) {
	switch t.Op {
	case OpConst, OpRConst:
		return
	case OpVar:
		if t.V != nil && t.V.Dom != nil {
			t.SV = t.V
			t.Tab = t.V.Dom
		} else {
			t.Multi = true
		}
		return
	case OpUF:
		t.Multi = true
		return
	}
	if t.S.K == SReal {
		t.Multi = true
		return
	}
	var sv *Var
	for _, a := range t.Args {
		if a.Multi || a.S.K == SReal {
			t.Multi = true
			return
		}
		if a.SV != nil {
			if sv == nil {
				sv = a.SV
			} else if sv != a.SV {
				t.Multi = true
				return
			}
		}
	}
	if sv == nil {
		return // all-constant args: folding should have happened; leave untabled
	}
	n := len(sv.Dom)
	tab := make([]uint64, n)
	av := make([]uint64, len(t.Args))
	for i := 0; i < n; i++ {
		for j, a := range t.Args {
			if a.SV != nil {
				av[j] = a.Tab[i]
			} else {
				av[j] = a.C
			}
		}
		tab[i] = evalOp(t, av)
	}
	t.SV = sv
	t.Tab = tab
}

// evalOp evaluates a BV/Bool operator on concrete argument values.
func evalOp(t *Term, a []uint64) uint64 {
	w := t.S.W
	aw := 0
	if len(t.Args) > 0 {
		aw = t.Args[0].S.W
	}
	b2u := func(b bool) uint64 {
		if b {
			return 1
		}
		return 0
	}
	switch t.Op {
	case OpNot:
		return a[0] ^ 1
	case OpAnd:
		for _, x := range a {
			if x == 0 {
				return 0
			}
		}
		return 1
	case OpOr:
		for _, x := range a {
			if x != 0 {
				return 1
			}
		}
		return 0
	case OpIte:
		if a[0] != 0 {
			return a[1]
		}
		return a[2]
	case OpEq:
		return b2u(a[0] == a[1])
	case OpUlt:
		return b2u(a[0] < a[1])
	case OpUle:
		return b2u(a[0] <= a[1])
	case OpSlt:
		return b2u(sext(a[0], aw) < sext(a[1], aw))
	case OpSle:
		return b2u(sext(a[0], aw) <= sext(a[1], aw))
	case OpAdd:
		return (a[0] + a[1]) & mask(w)
	case OpSub:
		return (a[0] - a[1]) & mask(w)
	case OpMul:
		return (a[0] * a[1]) & mask(w)
	case OpUdiv:
		if a[1] == 0 {
			return mask(w)
		}
		return a[0] / a[1]
	case OpUrem:
		if a[1] == 0 {
			return a[0]
		}
		return a[0] % a[1]
	case OpSdiv:
		x, y := sext(a[0], w), sext(a[1], w)
		if y == 0 {
			if x < 0 {
				return 1
			}
			return mask(w)
		}
		if y == -1 {
			return uint64(-x) & mask(w)
		}
		return uint64(x/y) & mask(w)
	case OpSrem:
		x, y := sext(a[0], w), sext(a[1], w)
		if y == 0 {
			return a[0]
		}
		if y == -1 {
			return 0
		}
		return uint64(x%y) & mask(w)
	case OpBAnd:
		return a[0] & a[1]
	case OpBOr:
		return a[0] | a[1]
	case OpBXor:
		return a[0] ^ a[1]
	case OpBNot:
		return ^a[0] & mask(w)
	case OpNeg:
		return (-a[0]) & mask(w)
	case OpShl:
		if a[1] >= uint64(w) {
			return 0
		}
		return (a[0] << a[1]) & mask(w)
	case OpLshr:
		if a[1] >= uint64(w) {
			return 0
		}
		return a[0] >> a[1]
	case OpAshr:
		x := sext(a[0], w)
		sh := a[1]
		if sh >= uint64(w) {
			sh = uint64(w - 1)
		}
		return uint64(x>>sh) & mask(w)
	case OpZext:
		return a[0]
	case OpSext:
		return uint64(sext(a[0], aw)) & mask(w)
	case OpExtract:
		return (a[0] >> uint(t.Lo)) & mask(t.Hi-t.Lo+1)
	case OpConcat:
		return ((a[0] << uint(t.Args[1].S.W)) | a[1]) & mask(w)
	case OpHexNib:
		return uint64("0123456789abcdef"[a[0]&15])
	}
	panic(fmt.Sprintf("evalOp: op %d", t.Op))
}

// ---- smart constructors -------------------------------------------------

func (tt *TermTable) node(op Op, s Sort, args ...*Term) *Term {
	allc := true
	for _, a := range args {
		if a.Op != OpConst {
			allc = false
			break
		}
	}
	t := &Term{Op: op, S: s, Args: args}
	if allc && s.K != SReal && (len(args) == 0 || args[0].S.K != SReal) && (s.K == SBool || s.W <= 64) {
		av := make([]uint64, len(args))
		for i, a := range args {
			av[i] = a.C
		}
		return tt.Const(s, evalOp(t, av))
	}
	return tt.mk(t)
}

func (tt *TermTable) Not(a *Term) *Term {
	if a.Op == OpConst {
		return tt.Bool(a.C == 0)
	}
	if a.Op == OpNot {
		return a.Args[0]
	}
	return tt.node(OpNot, BoolSort, a)
}

func (tt *TermTable) And(xs ...*Term) *Term {
	var out []*Term
	seen := map[int]bool{}
	for _, x := range xs {
		if x.Op == OpConst {
			if x.C == 0 {
				return tt.False
			}
			continue
		}
		if x.Op == OpAnd {
			for _, y := range x.Args {
				if !seen[y.ID] {
					seen[y.ID] = true
					out = append(out, y)
				}
			}
			continue
		}
		if !seen[x.ID] {
			seen[x.ID] = true
			out = append(out, x)
		}
	}
	for _, x := range out {
		if x.Op == OpNot && seen[x.Args[0].ID] {
			return tt.False
		}
	}
	switch len(out) {
	case 0:
		return tt.True
	case 1:
		return out[0]
	}
	return tt.node(OpAnd, BoolSort, out...)
}

func (tt *TermTable) Or(xs ...*Term) *Term {
	var out []*Term
	seen := map[int]bool{}
	for _, x := range xs {
		if x.Op == OpConst {
			if x.C != 0 {
				return tt.True
			}
			continue
		}
		if x.Op == OpOr {
			for _, y := range x.Args {
				if !seen[y.ID] {
					seen[y.ID] = true
					out = append(out, y)
				}
			}
			continue
		}
		if !seen[x.ID] {
			seen[x.ID] = true
			out = append(out, x)
		}
	}
	for _, x := range out {
		if x.Op == OpNot && seen[x.Args[0].ID] {
			return tt.True
		}
	}
	switch len(out) {
	case 0:
		return tt.False
	case 1:
		return out[0]
	}
	return tt.node(OpOr, BoolSort, out...)
}

func (tt *TermTable) Implies(a, b *Term) *Term { return tt.Or(tt.Not(a), b) }

func (tt *TermTable) Ite(c, a, b *Term) *Term {
	if c.Op == OpConst {
		if c.C != 0 {
			return a
		}
		return b
	}
	if a == b {
		return a
	}
	if a.S.K == SBool {
		if a.Op == OpConst && b.Op == OpConst {
			if a.C != 0 {
				return c
			}
			return tt.Not(c)
		}
		if a.Op == OpConst {
			if a.C != 0 {
				return tt.Or(c, b)
			}
			return tt.And(tt.Not(c), b)
		}
		if b.Op == OpConst {
			if b.C != 0 {
				return tt.Or(tt.Not(c), a)
			}
			return tt.And(c, a)
		}
	}
	return tt.node(OpIte, a.S, c, a, b)
}

// constTab reports whether a single-variable term has the same value on its whole domain.
func constTab(t *Term) (uint64, bool) {
	if t.SV == nil || len(t.Tab) == 0 {
		return 0, false
	}
	v := t.Tab[0]
	for _, x := range t.Tab[1:] {
		if x != v {
			return 0, false
		}
	}
	return v, true
}

func (tt *TermTable) Eq(a, b *Term) *Term {
	if a == b {
		return tt.True
	}
	if a.S != b.S {
		panic(fmt.Sprintf("Eq sort mismatch %v %v", a.S, b.S))
	}
	if a.S.K == SBool {
		if a.Op == OpConst {
			if a.C != 0 {
				return b
			}
			return tt.Not(b)
		}
		if b.Op == OpConst {
			if b.C != 0 {
				return a
			}
			return tt.Not(a)
		}
	}
	if a.Op == OpConst && b.Op != OpConst {
		a, b = b, a
	}
	// ite(c, k1, k2) == k  with constants folds to c / not c / false
	if b.Op == OpConst && a.Op == OpIte && a.Args[1].Op == OpConst && a.Args[2].Op == OpConst {
		e1 := a.Args[1].C == b.C
		e2 := a.Args[2].C == b.C
		switch {
		case e1 && e2:
			return tt.True
		case e1:
			return a.Args[0]
		case e2:
			return tt.Not(a.Args[0])
		default:
			return tt.False
		}
	}
	if a.ID > b.ID && b.Op != OpConst {
		a, b = b, a
	}
	return tt.node(OpEq, BoolSort, a, b)
}

func (tt *TermTable) Cmp(op Op, a, b *Term) *Term {
	if a == b {
		switch op {
		case OpUlt, OpSlt, OpRLt:
			return tt.False
		case OpUle, OpSle, OpRLe:
			return tt.True
		}
	}
	if a.S.K == SReal {
		if a.Op == OpRConst && b.Op == OpRConst {
			c := a.R.Cmp(b.R)
			if op == OpRLt {
				return tt.Bool(c < 0)
			}
			return tt.Bool(c <= 0)
		}
	}
	return tt.node(op, BoolSort, a, b)
}

func (tt *TermTable) Bin(op Op, a, b *Term) *Term {
	if a.S != b.S {
		panic(fmt.Sprintf("Bin sort mismatch op=%d %v %v", op, a.S, b.S))
	}
	// identities
	switch op {
	case OpAdd, OpBOr, OpBXor:
		if a.Op == OpConst && a.C == 0 {
			return b
		}
		if b.Op == OpConst && b.C == 0 {
			return a
		}
	case OpSub, OpShl, OpLshr, OpAshr:
		if b.Op == OpConst && b.C == 0 {
			return a
		}
	case OpMul:
		if a.Op == OpConst && a.C == 1 {
			return b
		}
		if b.Op == OpConst && b.C == 1 {
			return a
		}
		if (a.Op == OpConst && a.C == 0) || (b.Op == OpConst && b.C == 0) {
			return tt.Const(a.S, 0)
		}
	}
	return tt.node(op, a.S, a, b)
}

func (tt *TermTable) Un(op Op, a *Term) *Term { return tt.node(op, a.S, a) }

func (tt *TermTable) Zext(a *Term, w int) *Term {
	if a.S.W == w {
		return a
	}
	if a.S.W > w {
		return tt.Extract(a, w-1, 0)
	}
	return tt.node(OpZext, BV(w), a)
}

func (tt *TermTable) Sext(a *Term, w int) *Term {
	if a.S.W == w {
		return a
	}
	if a.S.W > w {
		return tt.Extract(a, w-1, 0)
	}
	return tt.node(OpSext, BV(w), a)
}

func (tt *TermTable) Extract(a *Term, hi, lo int) *Term {
	if lo == 0 && hi == a.S.W-1 {
		return a
	}
	// extract of zext/sext of a narrower term within its width
	if (a.Op == OpZext || a.Op == OpSext) && lo == 0 && hi < a.Args[0].S.W {
		return tt.Extract(a.Args[0], hi, lo)
	}
	if a.Op == OpConst && a.S.W <= 64 {
		return tt.Const(BV(hi-lo+1), (a.C>>uint(lo))&mask(hi-lo+1))
	}
	t := &Term{Op: OpExtract, S: BV(hi - lo + 1), Args: []*Term{a}, Hi: hi, Lo: lo}
	return tt.mk(t)
}

func (tt *TermTable) HexNib(a *Term) *Term { return tt.node(OpHexNib, BV(8), a) }

func (tt *TermTable) UF(name string, ret Sort, args ...*Term) *Term {
	if _, ok := tt.ufs[name]; !ok {
		var as []string
		for _, a := range args {
			as = append(as, a.S.String())
		}
		tt.ufs[name] = fmt.Sprintf("(declare-fun %s (%s) %s)", name, strings.Join(as, " "), ret)
	}
	t := &Term{Op: OpUF, S: ret, Args: args, Name: name}
	return tt.mk(t)
}

// reals
func (tt *TermTable) RBin(op Op, a, b *Term) *Term {
	if a.Op == OpRConst && b.Op == OpRConst {
		r := new(big.Rat)
		switch op {
		case OpRAdd:
			return tt.RConst(r.Add(a.R, b.R))
		case OpRSub:
			return tt.RConst(r.Sub(a.R, b.R))
		case OpRMul:
			return tt.RConst(r.Mul(a.R, b.R))
		case OpRDiv:
			if b.R.Sign() != 0 {
				return tt.RConst(r.Quo(a.R, b.R))
			}
		}
	}
	return tt.mk(&Term{Op: op, S: RealSort, Args: []*Term{a, b}})
}

func (tt *TermTable) RNeg(a *Term) *Term {
	if a.Op == OpRConst {
		return tt.RConst(new(big.Rat).Neg(a.R))
	}
	return tt.mk(&Term{Op: OpRNeg, S: RealSort, Args: []*Term{a}})
}

func (tt *TermTable) RealToBV(a *Term, w int) *Term {
	if a.Op == OpRConst {
		f := new(big.Float).SetRat(a.R)
		i, _ := f.Int(nil) // truncates toward zero
		return tt.Const(BV(w), i.Uint64())
	}
	return tt.mk(&Term{Op: OpRealToBV, S: BV(w), Args: []*Term{a}})
}

func (tt *TermTable) ToReal(a *Term) *Term {
	if a.Op == OpConst {
		return tt.RConst(new(big.Rat).SetInt64(sext(a.C, a.S.W)))
	}
	return tt.mk(&Term{Op: OpToReal, S: RealSort, Args: []*Term{a}})
}

// ---- printing -----------------------------------------------------------

func constStr(t *Term) string {
	switch t.S.K {
	case SBool:
		if t.C != 0 {
			return "true"
		}
		return "false"
	case SBV:
		if t.S.W%4 == 0 {
			return fmt.Sprintf("#x%0*x", t.S.W/4, t.C)
		}
		return fmt.Sprintf("#b%0*b", t.S.W, t.C)
	}
	panic("constStr")
}

func ratStr(r *big.Rat) string {
	neg := r.Sign() < 0
	a := new(big.Rat).Abs(r)
	var s string
	if a.IsInt() {
		s = a.Num().String() + ".0"
	} else {
		s = "(/ " + a.Num().String() + ".0 " + a.Denom().String() + ".0)"
	}
	if neg {
		return "(- " + s + ")"
	}
	return s
}

func refName(t *Term) string {
	switch t.Op {
	case OpConst:
		return constStr(t)
	case OpRConst:
		return ratStr(t.R)
	case OpVar:
		return t.Name
	}
	return fmt.Sprintf("t%d", t.ID)
}

// body prints the operator applied to references of its arguments.
func body(t *Term) string {
	var as []string
	for _, a := range t.Args {
		as = append(as, refName(a))
	}
	j := strings.Join(as, " ")
	switch t.Op {
	case OpZext:
		return fmt.Sprintf("((_ zero_extend %d) %s)", t.S.W-t.Args[0].S.W, j)
	case OpSext:
		return fmt.Sprintf("((_ sign_extend %d) %s)", t.S.W-t.Args[0].S.W, j)
	case OpExtract:
		return fmt.Sprintf("((_ extract %d %d) %s)", t.Hi, t.Lo, j)
	case OpUF:
		if len(as) == 0 {
			return t.Name
		}
		return fmt.Sprintf("(%s %s)", t.Name, j)
	case OpHexNib:
		x := as[0]
		return fmt.Sprintf("(ite (bvult %s #xa) (bvadd ((_ zero_extend 4) %s) #x30) (bvadd ((_ zero_extend 4) %s) #x57))", x, x, x)
	case OpRealToBV:
		x := as[0]
		return fmt.Sprintf("((_ int2bv %d) (ite (>= %s 0.0) (to_int %s) (- (to_int (- %s)))))", t.S.W, x, x, x)
	case OpToReal:
		// signed interpretation of the bit-vector
		w := t.Args[0].S.W
		x := as[0]
		return fmt.Sprintf("(to_real (ite (bvslt %s %s) (- (bv2nat %s) %s) (bv2nat %s)))", x, constStr(&Term{S: BV(w), C: 0}), x, new(big.Int).Lsh(big.NewInt(1), uint(w)).String(), x)
	}
	return fmt.Sprintf("(%s %s)", opNames[t.Op], j)
}

// EvalModel evaluates a term under an assignment of variables (by name).
// UF applications and reals are not supported (returns ok=false).
func EvalModel(t *Term, asg map[string]uint64, memo map[int]uint64) (uint64, bool) {
	if v, ok := memo[t.ID]; ok {
		return v, true
	}
	switch t.Op {
	case OpConst:
		return t.C, true
	case OpVar:
		v, ok := asg[t.Name]
		return v, ok
	case OpUF, OpRConst:
		return 0, false
	}
	if t.S.K == SReal || (len(t.Args) > 0 && t.Args[0].S.K == SReal) {
		return 0, false
	}
	av := make([]uint64, len(t.Args))
	for i, a := range t.Args {
		v, ok := EvalModel(a, asg, memo)
		if !ok {
			return 0, false
		}
		av[i] = v
	}
	r := evalOp(t, av)
	memo[t.ID] = r
	return r, true
}

// Support collects the variables of a term.
func Support(t *Term, seen map[int]bool, out map[*Var]bool) {
	if seen[t.ID] {
		return
	}
	seen[t.ID] = true
	if t.Op == OpVar {
		out[t.V] = true
		return
	}
	if !t.Multi && t.SV != nil {
		out[t.SV] = true
		return
	}
	for _, a := range t.Args {
		Support(a, seen, out)
	}
}

// SupportList returns (and caches) the variables of a term.
func SupportList(t *Term) []*Var {
	if t.supOK {
		return t.sup
	}
	if t.RawVar != nil {
		t.sup = []*Var{t.RawVar}
	} else {
		m := map[*Var]bool{}
		supportAll(t, map[int]bool{}, m)
		for v := range m {
			t.sup = append(t.sup, v)
		}
	}
	t.supOK = true
	return t.sup
}

func supportAll(t *Term, seen map[int]bool, out map[*Var]bool) {
	if seen[t.ID] {
		return
	}
	seen[t.ID] = true
	if t.Op == OpVar {
		out[t.V] = true
		return
	}
	if t.SV != nil {
		out[t.SV] = true
		return
	}
	if t.supOK {
		for _, v := range t.sup {
			out[v] = true
		}
		return
	}
	for _, a := range t.Args {
		supportAll(a, seen, out)
	}
}
