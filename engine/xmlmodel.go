package main

// encoding/xml.Decoder by an event script (DESIGN.md C20): the harness supplies
// a string of event codes through a reader; Token / DecodeElement replay it.
// After the first syntax error every later call returns that same error (the
// stickiness of the real decoder, validated natively in the translator-validation
// vectors).
//
//   E  start element "entry" whose DecodeElement succeeds
//   F  start element "entry" whose DecodeElement hits a syntax error (sticky)
//   S  some other start element        T  some other token (character data)
//   X  syntax error returned by Token (sticky)
//   A  a bare '&' between elements: a syntax error in strict mode (the default), character data otherwise
//   Z  the reader fails with io.ErrUnexpectedEOF (truncated compressed stream; sticky)
//   end of script: io.EOF

import (
	"go/types"

	"golang.org/x/tools/go/ssa"
)

type xmlScript struct{ events string }

type xmlDecoder struct {
	cell   *Value
	events string
	pos    int
	sticky Value // Iface error once damaged
	calls  int
	cur    byte
	nEntry int
}

func (e *Engine) namedType(pkg, name string) types.Type {
	for _, sp := range e.prog.AllPackages() {
		if sp.Pkg.Path() == pkg {
			if o := sp.Pkg.Scope().Lookup(name); o != nil {
				return o.Type()
			}
		}
	}
	panic(unsupported("type %s.%s not found", pkg, name))
}

func init() {
	models["encoding/xml.NewDecoder"] = func(p *Path, fn *ssa.Function, a []Value) Value {
		itf := a[0].(Iface)
		n, ok := itf.V.(*Native)
		if !ok {
			panic(unsupported("xml.NewDecoder on a reader that is not an event script"))
		}
		sc, ok := n.V.(*xmlScript)
		if !ok {
			panic(unsupported("xml.NewDecoder on a reader that is not an event script"))
		}
		p.stubsHit["encoding/xml.Decoder (event script with sticky syntax errors; entry content not modelled)"] = true
		// the decoder is a cell holding a zero xml.Decoder struct (so that exported fields such as
		// Strict can be assigned); the stub state lives in the side table
		dt := p.w.eng.namedType("encoding/xml", "Decoder")
		cell := new(Value)
		*cell = zero(dt)
		st := dt.Underlying().(*types.Struct)
		for i := 0; i < st.NumFields(); i++ {
			if st.Field(i).Name() == "Strict" {
				(*cell).(Struct)[i] = true
			}
		}
		p.side[cell] = &xmlDecoder{cell: cell, events: sc.events}
		return cell
	}
	decoderOf := func(p *Path, v Value) *xmlDecoder {
		c, ok := v.(*Value)
		if !ok || c == nil {
			panic(unsupported("xml.Decoder that was not created by xml.NewDecoder on an event script"))
		}
		d, ok := p.side[c].(*xmlDecoder)
		if !ok {
			panic(unsupported("xml.Decoder that was not created by xml.NewDecoder on an event script"))
		}
		return d
	}
	strictOf := func(p *Path, d *xmlDecoder) bool {
		st := p.w.eng.namedType("encoding/xml", "Decoder").Underlying().(*types.Struct)
		for i := 0; i < st.NumFields(); i++ {
			if st.Field(i).Name() == "Strict" {
				b, _ := (*d.cell).(Struct)[i].(bool)
				return b
			}
		}
		return true
	}
	// a *xml.SyntaxError value, so that type assertions and the real Error method work
	syntaxErr := func(p *Path, msg string) Value {
		et := p.w.eng.namedType("encoding/xml", "SyntaxError")
		c := new(Value)
		s := zero(et).(Struct)
		st := et.Underlying().(*types.Struct)
		for i := 0; i < st.NumFields(); i++ {
			switch st.Field(i).Name() {
			case "Msg":
				s[i] = msg
			case "Line":
				s[i] = int64(1)
			}
		}
		*c = s
		return Iface{T: types.NewPointer(et), V: c}
	}
	models["(*encoding/xml.Decoder).Token"] = func(p *Path, fn *ssa.Function, a []Value) Value {
		d := decoderOf(p, a[0])
		d.calls++
		if d.sticky != nil {
			return Tuple{Iface{}, d.sticky}
		}
		if d.pos >= len(d.events) {
			return Tuple{Iface{}, Iface{T: nativeErrorType, V: ioEOF}}
		}
		ev := d.events[d.pos]
		d.pos++
		d.cur = ev
		eng := p.w.eng
		switch ev {
		case 'E', 'F', 'S':
			local := "entry"
			if ev == 'S' {
				local = "comment"
			}
			st := Struct{Struct{"http://uniprot.org/uniprot", local}, Slice{}}
			return Tuple{Iface{T: eng.namedType("encoding/xml", "StartElement"), V: st}, Iface{}}
		case 'T':
			return Tuple{Iface{T: eng.namedType("encoding/xml", "CharData"), V: Slice{A: []Value{int64('\n')}}}, Iface{}}
		case 'Z':
			// the underlying reader fails with io.ErrUnexpectedEOF (a truncated compressed stream)
			d.sticky = Iface{T: nativeErrorType, V: ioErrUnexpectedEOF}
			return Tuple{Iface{}, d.sticky}
		case 'X':
			d.sticky = syntaxErr(p, "unexpected EOF")
			return Tuple{Iface{}, d.sticky}
		case 'A':
			// a bare '&' in character data: a syntax error only in strict mode
			if strictOf(p, d) {
				d.sticky = syntaxErr(p, "invalid character entity & (no semicolon)")
				return Tuple{Iface{}, d.sticky}
			}
			return Tuple{Iface{T: eng.namedType("encoding/xml", "CharData"), V: Slice{A: []Value{int64('&')}}}, Iface{}}
		}
		panic(unsupported("xml event %q", ev))
	}
	models["(*encoding/xml.Decoder).DecodeElement"] = func(p *Path, fn *ssa.Function, a []Value) Value {
		d := decoderOf(p, a[0])
		if d.sticky != nil {
			return d.sticky
		}
		if d.cur == 'F' {
			d.sticky = syntaxErr(p, "element <accession> closed by </oops>")
			return d.sticky
		}
		// stamp the ordinal of the entry into its Version field so that order can be observed
		d.nEntry++
		itf := a[1].(Iface)
		ptr := itf.V.(*Value)
		st := itf.T.Underlying().(*types.Pointer).Elem().Underlying().(*types.Struct)
		for i := 0; i < st.NumFields(); i++ {
			if st.Field(i).Name() == "Version" {
				(*ptr).(Struct)[i] = int64(d.nEntry)
			}
		}
		return Iface{}
	}
}
