package main

// A Path is one execution of a harness from its entry, following a recorded
// prefix of decisions and extending it (decision-prefix DFS, DESIGN.md 2.3).

import (
	"fmt"
	"go/types"
	"os"
	"sort"
	"strings"
	"time"

	"golang.org/x/tools/go/ssa"
)

type abortKind int

const (
	abAssumed abortKind = iota // vAssume infeasible: path silently dropped
	abUnsupported
	abBudget
	abSolverUnknown
	abViolationEnd // path ended after a violation that cannot be assumed away
	abDone
)

type pathAbort struct {
	kind abortKind
	msg  string
}

func unsupported(format string, a ...interface{}) pathAbort {
	return pathAbort{abUnsupported, fmt.Sprintf(format, a...)}
}

// goPanic is a Go-level panic of the interpreted program.
type goPanic struct {
	v   Value
	msg string
}

type Draw struct {
	Kind string      `json:"kind"` // choice | bytes | int | bool | real
	N    int         `json:"n,omitempty"`
	Dom  string      `json:"dom,omitempty"`
	Lo   int64       `json:"lo,omitempty"`
	Hi   int64       `json:"hi,omitempty"`
	Val  interface{} `json:"val"` // filled from the model
	vars []*Var
	term *Term
}

type Violation struct {
	Harness  string            `json:"harness"`
	Clause   string            `json:"clause"`
	Kind     string            `json:"kind"` // assert | panic | deadlock | nontermination
	Draws    []Draw            `json:"draws"`
	Prefix   []int             `json:"prefix"`
	Detail   string            `json:"detail,omitempty"`
	Finding  string            `json:"finding,omitempty"` // known-finding id it falls in, "" = new
	Sched    []int             `json:"sched,omitempty"`
	MapIters int               `json:"map_iterations,omitempty"` // iterations over maps of more than one entry on the path
	Expected map[string]string `json:"expected,omitempty"`
}

type bitset [4]uint64

func (b *bitset) get(i int) bool { return b[i>>6]&(1<<uint(i&63)) != 0 }
func (b *bitset) clr(i int)      { b[i>>6] &^= 1 << uint(i&63) }

type Path struct {
	w       *Worker
	harness string
	prefix  []int
	pos     int
	alts    [][]int

	pc     []*Term
	synced int
	dom    map[*Var]*bitset
	ent    map[*Var]bool

	vars  []*Var
	draws []Draw

	steps     int
	maxSteps  int
	depth     int
	maxDepth  int
	globals   map[*ssa.Global]*Value
	initDone  map[*ssa.Package]bool
	side      map[*Value]interface{} // model state of stdlib objects keyed by cell identity
	regions   []region
	asserts   map[string]bool
	covers    map[string]bool
	coverSeen map[string]bool
	out       []string
	viols     []Violation
	witnessed map[string]bool
	ufApps    map[string][]*Term // blake3 applications on this path, by UF name
	realMode  bool
	unknown   bool
	sched     *Sched
	randTrace []Value
	termStep  int // declared termination budget (vTerminates), 0 = none
	modelsHit map[string]bool
	fnsHit    map[*ssa.Function]bool
	nQueries  int
	mapOrderRev bool
	mapOrderAlt bool
	mapRanges   int // iterations over unobserved maps of more than one entry
	relevant     map[*Var]bool
	pending      map[*Var][]*Term
	jsonText     bool                // JSON text layer enabled (vJSONText)
	files        map[string][]Value // in-memory files written by the code under test
	finalChecked bool
	harnessRel   string // package directory of the harness relative to /repo
	schedBudget  int // deviations from the default schedule explored (vSchedules)
	nTable       int // branch conditions decided by domain tables (no solver call)
	pureChecked  int
	impure       bool
	logApps      []*Term
	model        map[string]uint64 // an assignment satisfying the whole PC (nil = none known)
	modelMemo    map[int]uint64
	domVersion   int
	simpVersion  int
	simpMemo     map[int]*Term
	epoch        int
	cur          *Frame
	nChans       int
	preds        map[string]*Term
	lastPanicMsg string
	nativesHit   map[string]bool
	stubsHit     map[string]bool
}

type region struct {
	id     string
	cond   Value  // bool or *Term
	clause string // "" = any clause, else only failures of this clause
}

func (p *Path) tt() *TermTable { return p.w.tt }

// ---- domain fast path -------------------------------------------------------

func (p *Path) curDom(v *Var) *bitset {
	if b, ok := p.dom[v]; ok {
		return b
	}
	return nil
}

// tabRange reports whether a single-variable Bool term can be true / false on
// the variable's current domain.
func (p *Path) tabRange(c *Term) (anyT, anyF bool) {
	b := p.curDom(c.SV)
	for i, x := range c.Tab {
		if b != nil && !b.get(i) {
			continue
		}
		if x != 0 {
			anyT = true
		} else {
			anyF = true
		}
		if anyT && anyF {
			return
		}
	}
	return
}

// tabValues returns the distinct values of a single-variable term on the current domain.
func (p *Path) tabValues(c *Term) []uint64 {
	b := p.curDom(c.SV)
	seen := map[uint64]bool{}
	var out []uint64
	for i, x := range c.Tab {
		if b != nil && !b.get(i) {
			continue
		}
		if !seen[x] {
			seen[x] = true
			out = append(out, x)
		}
	}
	sort.Slice(out, func(i, j int) bool { return out[i] < out[j] })
	return out
}

func (p *Path) narrow(c *Term, want bool) {
	v := c.SV
	b := p.curDom(v)
	if b == nil {
		b = &bitset{}
		for i := range v.Dom {
			b[i>>6] |= 1 << uint(i&63)
		}
		p.dom[v] = b
	}
	for i, x := range c.Tab {
		if (x != 0) != want {
			b.clr(i)
		}
	}
}

// addPC records a constraint known to be consistent with the path.
// Conjunctions are split so that single-variable conjuncts narrow domains.
func (p *Path) addPC(c *Term) {
	if c.IsConst() {
		return
	}
	if c.Op == OpAnd {
		for _, a := range c.Args {
			p.addPC(a)
		}
		return
	}
	if c.Op == OpNot && c.Args[0].Op == OpOr {
		for _, a := range c.Args[0].Args {
			p.addPC(p.tt().Not(a))
		}
		return
	}
	p.dropModelUnless(c, true)
	p.pc = append(p.pc, c)
	if c.SV != nil {
		p.narrow(c, true)
		p.domVersion++
		return
	}
	sup := map[*Var]bool{}
	Support(c, map[int]bool{}, sup)
	for v := range sup {
		p.ent[v] = true
	}
}

// pureBV reports whether the path condition and the extra terms are free of
// uninterpreted functions and real arithmetic.
func (p *Path) pureBV(extra []*Term) bool {
	for ; p.pureChecked < len(p.pc); p.pureChecked++ {
		if p.pc[p.pureChecked].NoEval {
			p.impure = true
		}
	}
	if p.impure {
		return false
	}
	for _, e := range extra {
		if e.NoEval {
			return false
		}
	}
	return true
}

// sync brings the solver up to date with the path condition.  Single-variable
// constraints (domain constraints, narrowed-domain facts) are only sent for
// variables that are relevant: those occurring in a multi-variable constraint of
// the path or in the query.  The unsent rest constrains other variables only and
// is satisfiable on its own (it is exactly what the narrowed domains record), so
// the answer is unchanged - and a 65 537-letter sequence does not reach the solver.
func (p *Path) sync(extra ...*Term) {
	if p.epoch != p.w.sv.epoch {
		// the solver process was restarted: re-establish this path's frame
		p.epoch = p.w.sv.epoch
		p.w.sv.Push()
		p.synced = 0
		p.relevant = map[*Var]bool{}
		p.pending = map[*Var][]*Term{}
	}
	if p.relevant == nil {
		p.relevant = map[*Var]bool{}
		p.pending = map[*Var][]*Term{}
	}
	mark := func(v *Var) {
		if p.relevant[v] {
			return
		}
		p.relevant[v] = true
		for _, c := range p.pending[v] {
			p.w.sv.Assert(c)
		}
		delete(p.pending, v)
	}
	for ; p.synced < len(p.pc); p.synced++ {
		c := p.pc[p.synced]
		var single *Var
		if c.SV != nil {
			single = c.SV
		} else if c.RawVar != nil {
			single = c.RawVar
		}
		if single != nil {
			if p.relevant[single] {
				p.w.sv.Assert(c)
			} else {
				p.pending[single] = append(p.pending[single], c)
			}
			continue
		}
		for _, v := range SupportList(c) {
			mark(v)
		}
		p.w.sv.Assert(c)
	}
	for _, e := range extra {
		for _, v := range SupportList(e) {
			mark(v)
		}
	}
}

// query checks satisfiability of PC ∧ extra.
func (p *Path) query(extra ...*Term) Res {
	p.sync(extra...)
	sv := p.w.sv
	sv.Push()
	for _, e := range extra {
		sv.Assert(e)
	}
	ep := sv.epoch
	sv.PureBV = p.pureBV(extra)
	sv.HintLarge = len(p.vars) > 48
	r := sv.Check()
	p.nQueries++
	if e := sv.TakeError(); e != "" {
		p.w.noteSolverError(e)
		r = Unknown
	}
	if sv.epoch == ep {
		sv.Pop()
	}
	return r
}

// trivialModel: when no variable is entangled (every constraint on the path is a
// single-variable one, already reflected in the narrowed domains) any choice of
// an allowed value per variable satisfies the path condition - no solver needed.
func (p *Path) trivialModel(extra []*Term) (map[string]ModelValue, bool) {
	if len(p.ent) != 0 || p.impure {
		return nil, false
	}
	for _, e := range extra {
		if !(e.IsConst() && e.C != 0) {
			return nil, false
		}
	}
	for _, c := range p.pc {
		if c.SV == nil && !(c.Op == OpOr && c.Name == "raw") && !(c.Op == OpEq && c.Name == "raw") && !(c.Op == OpAnd && c.Name == "raw") {
			return nil, false
		}
	}
	m := make(map[string]ModelValue, len(p.vars))
	for _, v := range p.vars {
		if v.Dom == nil {
			return nil, false
		}
		m[v.Name] = ModelValue{U: p.anyAllowed(v), S: v.S}
	}
	return m, true
}

// queryModel is query plus model extraction on sat.
func (p *Path) queryModel(extra ...*Term) (Res, map[string]ModelValue) {
	if m, ok := p.trivialModel(extra); ok {
		return Sat, m
	}
	p.sync(extra...)
	sv := p.w.sv
	sv.Push()
	for _, e := range extra {
		sv.Assert(e)
	}
	ep := sv.epoch
	t0 := time.Now()
	sv.PureBV = p.pureBV(extra)
	sv.HintLarge = len(p.vars) > 48
	r := sv.Check()
	if d := time.Since(t0); d > 300*time.Millisecond && os.Getenv("POLYSYM_SLOWLOG") != "" {
		slowN++
		as := append(append([]*Term{}, p.pc...), extra...)
		os.WriteFile(fmt.Sprintf("/tmp/slow-%d-%d.smt2", p.w.id, slowN), []byte(fmt.Sprintf("; %v\n", d)+StandaloneScript(p.tt(), as)), 0644)
	}
	p.nQueries++
	if e := sv.TakeError(); e != "" {
		p.w.noteSolverError(e)
		r = Unknown
	}
	var m map[string]ModelValue
	if r == Sat {
		var rel []*Var
		for _, v := range p.vars {
			if p.relevant[v] {
				rel = append(rel, v)
			}
		}
		m = sv.Model(rel)
		if m == nil {
			m = map[string]ModelValue{}
		}
	}
	if sv.epoch == ep {
		sv.Pop()
	}
	return r, m
}

func (p *Path) step() {
	p.steps++
	if p.steps > p.maxSteps {
		panic(pathAbort{abBudget, fmt.Sprintf("step budget %d exceeded", p.maxSteps)})
	}
}

// simp partially evaluates a Bool term under the current narrowed domains.
func (p *Path) simp(t *Term) *Term {
	if t.IsConst() {
		return t
	}
	if p.simpVersion != p.domVersion {
		p.simpMemo = map[int]*Term{}
		p.simpVersion = p.domVersion
	}
	if r, ok := p.simpMemo[t.ID]; ok {
		return r
	}
	tt := p.tt()
	r := t
	if t.SV != nil {
		if p.curDom(t.SV) != nil {
			vals := p.tabValues(t)
			if len(vals) == 1 {
				r = tt.Const(t.S, vals[0])
			}
		}
	} else {
		switch t.Op {
		case OpNot:
			r = tt.Not(p.simp(t.Args[0]))
		case OpAnd, OpOr:
			as := make([]*Term, len(t.Args))
			ch := false
			for i, a := range t.Args {
				as[i] = p.simp(a)
				if as[i] != a {
					ch = true
				}
			}
			if ch {
				if t.Op == OpAnd {
					r = tt.And(as...)
				} else {
					r = tt.Or(as...)
				}
			}
		case OpEq:
			a, b := p.simp(t.Args[0]), p.simp(t.Args[1])
			if a != t.Args[0] || b != t.Args[1] {
				r = tt.Eq(a, b)
			}
		case OpIte:
			c := p.simp(t.Args[0])
			if c.IsConst() {
				if c.C != 0 {
					r = p.simp(t.Args[1])
				} else {
					r = p.simp(t.Args[2])
				}
			}
		}
	}
	p.simpMemo[t.ID] = r
	return r
}

var slowN int

const modelCacheMaxVars = 96

func (p *Path) setModel(m map[string]ModelValue) {
	if m == nil || len(p.vars) > modelCacheMaxVars {
		p.model = nil
		return
	}
	p.model = make(map[string]uint64, len(m))
	for k, v := range m {
		if v.S.K == SReal {
			p.model = nil
			return
		}
		p.model[k] = v.U
	}
	p.modelMemo = map[int]uint64{}
}

// evalModel evaluates a Bool term under the cached model (if any).
func (p *Path) evalModel(c *Term) (bool, bool) {
	if p.model == nil || c.NoEval {
		return false, false
	}
	// variables drawn after the model was fetched: any value of their current domain
	for _, v := range p.vars {
		if _, ok := p.model[v.Name]; !ok {
			if v.S.K == SReal || (v.Dom == nil && v.S.K == SBV) {
				return false, false
			}
			p.model[v.Name] = p.anyAllowed(v)
		}
	}
	v, ok := EvalModel(c, p.model, p.modelMemo)
	if !ok {
		return false, false
	}
	return v != 0, true
}

// dropModelUnless invalidates the cached model if it does not satisfy c == want.
func (p *Path) dropModelUnless(c *Term, want bool) {
	if p.model == nil {
		return
	}
	if v, ok := p.evalModel(c); !ok || v != want {
		p.model = nil
	}
}

func (p *Path) queryModelIfSmall(extra ...*Term) (Res, map[string]ModelValue) {
	noEval := false
	for _, e := range extra {
		if e.NoEval {
			noEval = true
		}
	}
	if len(p.vars) > modelCacheMaxVars || p.w.noModelCache || noEval {
		return p.query(extra...), nil
	}
	p.w.sv.ModelTimeout = 3 * time.Second
	mt := p.w.sv.ModelTimeouts
	r, m := p.queryModel(extra...)
	p.w.sv.ModelTimeout = 0
	if p.w.sv.ModelTimeouts != mt {
		// model construction did not return: stop fetching models on this worker
		p.w.noModelCache = true
		m = nil
	}
	return r, m
}

// Decide resolves a symbolic branch condition.
func (p *Path) Decide(c *Term) bool {
	if c.IsConst() {
		return c.C != 0
	}
	if c.S.K != SBool {
		panic("Decide on non-bool")
	}
	if len(p.dom) > 0 {
		c = p.simp(c)
		if c.IsConst() {
			return c.C != 0
		}
	}
	fastBoth := false
	if c.SV != nil {
		t, f := p.tabRange(c)
		if !f {
			p.nTable++
			return true
		}
		if !t {
			p.nTable++
			return false
		}
		if !p.ent[c.SV] {
			fastBoth = true
			p.nTable++
		}
	}
	if p.pos < len(p.prefix) {
		d := p.prefix[p.pos] != 0
		p.pos++
		p.dropModelUnless(c, d)
		if d {
			p.addPC(c)
		} else {
			p.addPC(p.tt().Not(c))
		}
		return d
	}
	var feasT, feasF bool
	if fastBoth {
		feasT, feasF = true, true
		p.dropModelUnless(c, true)
	} else if mv, ok := p.evalModel(c); ok {
		// the cached model of PC witnesses one side; only the other side needs the solver
		if mv {
			feasT = true
			switch p.query(p.tt().Not(c)) {
			case Unsat:
				feasF = false
			case Unknown:
				p.unknown = true
				p.w.noteUnknown("feasibility of a branch condition")
				feasF = true
			default:
				feasF = true
			}
		} else {
			feasF = true
			r, m := p.queryModelIfSmall(c)
			switch r {
			case Unsat:
				feasT = false
			case Unknown:
				p.unknown = true
				p.w.noteUnknown("feasibility of a branch condition")
				feasT = true
				p.model = nil
			default:
				feasT = true
				p.setModel(m) // the true side is taken
			}
		}
	} else {
		r, m := p.queryModelIfSmall(c)
		switch r {
		case Unsat:
			feasT, feasF = false, true
		case Unknown:
			p.unknown = true
			p.w.noteUnknown("feasibility of a branch condition")
			feasT = true
		default:
			feasT = true
			if m != nil {
				p.setModel(m)
			}
		}
		if feasT {
			r2 := p.query(p.tt().Not(c))
			switch r2 {
			case Unsat:
				feasF = false
			case Unknown:
				p.unknown = true
				p.w.noteUnknown("feasibility of a branch condition")
				feasF = true
			default:
				feasF = true
			}
		}
	}
	if os.Getenv("POLYSYM_TRACE") != "" {
		fmt.Fprintf(os.Stderr, "DECIDE t%d %s feasT=%v feasF=%v fast=%v pos=%d\n", c.ID, termString(c, 3), feasT, feasF, fastBoth, p.pos)
	}
	d := feasT
	if feasT && feasF {
		alt := make([]int, len(p.prefix)+1)
		copy(alt, p.prefix)
		alt[len(p.prefix)] = 0
		p.alts = append(p.alts, alt)
	}
	p.dropModelUnless(c, d)
	if d {
		p.prefix = append(p.prefix, 1)
		p.addPC(c)
	} else {
		p.prefix = append(p.prefix, 0)
		p.addPC(p.tt().Not(c))
	}
	p.pos++
	return d
}

// Choose makes an n-ary unconstrained decision.
func (p *Path) Choose(n int) int {
	if n <= 0 {
		panic(pathAbort{abAssumed, "empty choice"})
	}
	if n == 1 {
		return 0
	}
	if p.pos < len(p.prefix) {
		d := p.prefix[p.pos]
		p.pos++
		return d
	}
	for k := n - 1; k >= 1; k-- {
		alt := make([]int, len(p.prefix)+1)
		copy(alt, p.prefix)
		alt[len(p.prefix)] = k
		p.alts = append(p.alts, alt)
	}
	p.prefix = append(p.prefix, 0)
	p.pos++
	return 0
}

// Concretize forks over the feasible values of an integer term.
func (p *Path) Concretize(t *Term, what string) int64 {
	if t.IsConst() {
		return sext(t.C, t.S.W)
	}
	tt := p.tt()
	if t.SV != nil && !p.ent[t.SV] {
		cands := p.tabValues(t)
		if len(cands) == 0 {
			panic(pathAbort{abAssumed, "no feasible value"})
		}
		k := p.Choose(len(cands))
		c := cands[k]
		p.addPC(tt.Eq(t, tt.Const(t.S, c)))
		return sext(c, t.S.W)
	}
	if p.pos < len(p.prefix) {
		// replay: the chosen value itself is stored in the prefix
		v := p.prefix[p.pos]
		p.pos++
		c := tt.Const(t.S, uint64(int64(v)))
		p.addPC(tt.Eq(t, c))
		return sext(c.C, t.S.W)
	}
	// enumerate by repeated solving (bounded)
	var cands []uint64
	var excl []*Term
	for len(cands) < 65 {
		r, m := p.queryModelTerm(t, excl...)
		if r != Sat {
			if r == Unknown {
				p.unknown = true
				p.w.noteUnknown("concretisation of " + what)
			}
			break
		}
		cands = append(cands, m)
		excl = append(excl, tt.Not(tt.Eq(t, tt.Const(t.S, m))))
	}
	if len(cands) >= 65 {
		panic(unsupported("concretisation of %s has more than 64 feasible values", what))
	}
	if len(cands) == 0 {
		panic(pathAbort{abAssumed, "no feasible value"})
	}
	sort.Slice(cands, func(i, j int) bool { return cands[i] < cands[j] })
	for i := len(cands) - 1; i >= 1; i-- {
		alt := make([]int, len(p.prefix)+1)
		copy(alt, p.prefix)
		alt[len(p.prefix)] = int(sext(cands[i], t.S.W))
		p.alts = append(p.alts, alt)
	}
	p.prefix = append(p.prefix, int(sext(cands[0], t.S.W)))
	p.pos++
	p.addPC(tt.Eq(t, tt.Const(t.S, cands[0])))
	return sext(cands[0], t.S.W)
}

// queryModelTerm returns one feasible value of t under PC ∧ extra.
func (p *Path) queryModelTerm(t *Term, extra ...*Term) (Res, uint64) {
	p.sync(append([]*Term{t}, extra...)...)
	sv := p.w.sv
	sv.Push()
	for _, e := range extra {
		sv.Assert(e)
	}
	aux := p.tt().NewVar(fmt.Sprintf("aux_%d", t.S.W), t.S, nil)
	sv.Assert(p.tt().Eq(aux.T, t))
	ep := sv.epoch
	sv.PureBV = p.pureBV(append([]*Term{t}, extra...))
	r := sv.Check()
	p.nQueries++
	var val uint64
	if r == Sat {
		m := sv.Model([]*Var{aux})
		val = m[aux.Name].U
	}
	if sv.epoch == ep {
		sv.Pop()
	}
	return r, val
}

// Assume restricts the path; an infeasible assumption drops it.
func (p *Path) Assume(c Value) {
	switch c := c.(type) {
	case bool:
		if !c {
			panic(pathAbort{abAssumed, "assume(false)"})
		}
	case *Term:
		if !p.Decide1(c) {
			panic(pathAbort{abAssumed, "assumption infeasible"})
		}
	default:
		panic(fmt.Sprintf("Assume: %T", c))
	}
}

// Decide1 adds c to the path if feasible (no fork) and reports feasibility.
func (p *Path) Decide1(c *Term) bool {
	if c.IsConst() {
		return c.C != 0
	}
	if len(p.dom) > 0 {
		c = p.simp(c)
		if c.IsConst() {
			return c.C != 0
		}
	}
	if c.SV != nil {
		t, f := p.tabRange(c)
		if !t {
			return false
		}
		if !f {
			return true
		}
		if !p.ent[c.SV] {
			p.dropModelUnless(c, true)
			p.addPC(c)
			return true
		}
	}
	if p.pos < len(p.prefix) {
		d := p.prefix[p.pos] != 0
		p.pos++
		if d {
			p.dropModelUnless(c, true)
			p.addPC(c)
		}
		return d
	}
	var r Res
	if mv, ok := p.evalModel(c); ok && mv {
		r = Sat // the cached model satisfies the assumption
	} else {
		var m map[string]ModelValue
		r, m = p.queryModelIfSmall(c)
		if r == Sat && m != nil {
			p.setModel(m)
		} else {
			p.model = nil
		}
	}
	if r == Unknown {
		p.unknown = true
		p.w.noteUnknown("feasibility of an assumption")
	}
	ok := r != Unsat
	if ok {
		p.prefix = append(p.prefix, 1)
		p.addPC(c)
	} else {
		p.prefix = append(p.prefix, 0)
	}
	p.pos++
	return ok
}

// ---- assertions -----------------------------------------------------------

func (p *Path) activeRegions(clause string) (concreteHit string, sym []region) {
	for _, r := range p.regions {
		if !p.w.eng.findingActive(r.id) {
			continue
		}
		if r.clause != "" && r.clause != clause {
			continue
		}
		switch c := r.cond.(type) {
		case bool:
			if c && concreteHit == "" {
				concreteHit = r.id
			}
		case *Term:
			if c.IsConst() {
				if c.C != 0 && concreteHit == "" {
					concreteHit = r.id
				}
			} else {
				sym = append(sym, r)
			}
		}
	}
	return
}

func (p *Path) fillDraws(m map[string]ModelValue) []Draw {
	out := make([]Draw, len(p.draws))
	for i, d := range p.draws {
		o := d
		switch d.Kind {
		case "bytes":
			bs := make([]byte, len(d.vars))
			for j, v := range d.vars {
				mv, ok := m[v.Name]
				val := mv.U
				if !ok || !inDom(v, val) {
					val = p.anyAllowed(v)
				}
				bs[j] = byte(val)
			}
			o.Val = bytesToJSON(bs)
		case "int":
			v := d.vars[0]
			mv, ok := m[v.Name]
			val := mv.U
			if !ok {
				val = uint64(d.Lo)
			}
			o.Val = sext(val, v.S.W)
		case "bool":
			v := d.vars[0]
			o.Val = m[v.Name].U != 0
		case "real":
			v := d.vars[0]
			if mv, ok := m[v.Name]; ok && mv.R != nil {
				f, _ := mv.R.Float64()
				o.Val = f
				o.Dom = mv.R.String()
			} else {
				o.Val = float64(d.Lo)
			}
		}
		o.vars = nil
		o.term = nil
		out[i] = o
	}
	return out
}

func inDom(v *Var, val uint64) bool {
	if v.Dom == nil {
		return true
	}
	for _, d := range v.Dom {
		if d == val {
			return true
		}
	}
	return false
}

func (p *Path) anyAllowed(v *Var) uint64 {
	if v.Dom == nil {
		return 0
	}
	b := p.curDom(v)
	for i, d := range v.Dom {
		if b == nil || b.get(i) {
			return d
		}
	}
	return v.Dom[0]
}

func bytesToJSON(bs []byte) []int {
	out := make([]int, len(bs))
	for i, b := range bs {
		out[i] = int(b)
	}
	return out
}

func (p *Path) recordViolation(kind, clause, detail, finding string, m map[string]ModelValue) {
	v := Violation{Harness: p.harness, Clause: clause, Kind: kind, Detail: detail, Finding: finding,
		Draws: p.fillDraws(m), Prefix: append([]int(nil), p.prefix[:p.pos]...)}
	if p.sched != nil {
		v.Sched = append([]int(nil), p.sched.trace...)
	}
	v.MapIters = p.mapRanges
	p.viols = append(p.viols, v)
	if finding != "" {
		p.witnessed[finding] = true
	}
}

// Assert checks a property clause on this path.
func (p *Path) Assert(c Value, clause string) {
	p.asserts[clause] = true
	tt := p.tt()
	var ct *Term
	switch c := c.(type) {
	case bool:
		ct = tt.Bool(c)
	case *Term:
		ct = c
	default:
		panic(fmt.Sprintf("Assert: %T", c))
	}
	if ct.IsConst() && ct.C != 0 {
		return
	}
	if len(p.dom) > 0 && !ct.IsConst() {
		if s := p.simp(ct); s.IsConst() && s.C != 0 {
			return
		}
	}
	if ct.SV != nil {
		// the narrowed domain over-approximates the feasible values: all-true on it is conclusive
		if _, f := p.tabRange(ct); !f {
			return
		}
	}
	neg := tt.Not(ct)
	hit, sym := p.activeRegions(clause)
	failed := false
	if hit != "" {
		// every failure on this path lies in a known-finding region
		r, m := p.queryModel(neg)
		if r == Sat {
			failed = true
			p.recordViolation("assert", clause, "", hit, m)
		} else if r == Unknown {
			failed = true
			p.unknown = true
			p.w.noteUnknown("assertion " + clause)
		}
	} else {
		extra := []*Term{neg}
		for _, r := range sym {
			extra = append(extra, tt.Not(r.cond.(*Term)))
		}
		r, m := p.queryModel(extra...)
		p.w.eng.maybeCrossCheck(p, extra, r)
		switch r {
		case Sat:
			failed = true
			p.recordViolation("assert", clause, "", "", m)
		case Unknown:
			failed = true
			p.unknown = true
			p.w.noteUnknown("assertion " + clause)
		}
		for _, rg := range sym {
			failed = true // conservatively re-establish feasibility below
			r2, m2 := p.queryModel(neg, rg.cond.(*Term))
			if r2 == Sat {
				p.recordViolation("assert", clause, "", rg.id, m2)
			} else if r2 == Unknown {
				p.unknown = true
				p.w.noteUnknown("assertion " + clause)
			}
		}
	}
	if !failed {
		// the assertion is valid on this path: PC ∧ ct is satisfiable because PC is,
		// and every model of PC (the cached one included) satisfies ct
		if !ct.IsConst() {
			keep := p.model
			p.addPC(ct)
			if keep != nil && ct.NoEval {
				p.model = keep
			}
		}
		return
	}
	// continue under the assertion if that is possible
	if ct.IsConst() {
		panic(pathAbort{abViolationEnd, clause})
	}
	if !p.Decide1(ct) {
		panic(pathAbort{abViolationEnd, clause})
	}
}

// Panicked is called when a Go panic escapes the harness.
func (p *Path) Panicked(gp goPanic) {
	hit, sym := p.activeRegions("no-panic")
	tt := p.tt()
	if hit != "" {
		_, m := p.queryModel()
		p.recordViolation("panic", "no-panic", gp.msg, hit, m)
		return
	}
	var extra []*Term
	for _, r := range sym {
		extra = append(extra, tt.Not(r.cond.(*Term)))
	}
	r, m := p.queryModel(extra...)
	if r == Sat {
		p.recordViolation("panic", "no-panic", gp.msg, "", m)
	} else if r == Unknown {
		p.unknown = true
		p.w.noteUnknown("panic feasibility")
	}
	for _, rg := range sym {
		r2, m2 := p.queryModel(rg.cond.(*Term))
		if r2 == Sat {
			p.recordViolation("panic", "no-panic", gp.msg, rg.id, m2)
		}
	}
}

func (p *Path) Cover(label string, c Value) {
	p.covers[label] = true
	switch c := c.(type) {
	case bool:
		if c {
			p.coverSeen[label] = true
		}
	case *Term:
		if p.coverSeen[label] || p.w.eng.coverKnown(label) {
			return
		}
		if c.IsConst() {
			if c.C != 0 {
				p.coverSeen[label] = true
			}
			return
		}
		if c.SV != nil && !p.ent[c.SV] {
			if t, _ := p.tabRange(c); t {
				p.coverSeen[label] = true
			}
			return
		}
		if p.query(c) == Sat {
			p.coverSeen[label] = true
		}
	}
}

// ---- variables ---------------------------------------------------------------

func domValues(dom string) []uint64 {
	if dom == "" {
		out := make([]uint64, 256)
		for i := range out {
			out[i] = uint64(i)
		}
		return out
	}
	seen := [256]bool{}
	var out []uint64
	for i := 0; i < len(dom); i++ {
		if !seen[dom[i]] {
			seen[dom[i]] = true
			out = append(out, uint64(dom[i]))
		}
	}
	return out
}

func domKey(dom string) string {
	if dom == "" {
		return "all"
	}
	vals := domValues(dom)
	sort.Slice(vals, func(i, j int) bool { return vals[i] < vals[j] })
	var sb strings.Builder
	for _, v := range vals {
		fmt.Fprintf(&sb, "%02x", v)
	}
	s := sb.String()
	if len(s) > 40 {
		// short stable hash
		h := uint64(14695981039346656037)
		for i := 0; i < len(s); i++ {
			h ^= uint64(s[i])
			h *= 1099511628211
		}
		return fmt.Sprintf("h%x", h)
	}
	return s
}

func (p *Path) newByteVar(dom string) *Var {
	name := fmt.Sprintf("b%d_%s", len(p.vars), domKey(dom))
	v := p.tt().NewVar(name, BV(8), domValues(dom))
	p.vars = append(p.vars, v)
	if dom != "" && len(v.Dom) < 256 {
		// domain constraint for the solver
		// the domain constraint is constantly true on the domain, so it must bypass
		// folding and the fast path: it exists only for the solver.
		// as few range tests as the (sorted) domain allows
		var alts []*Term
		tt := p.tt()
		for i := 0; i < len(v.Dom); {
			j := i
			for j+1 < len(v.Dom) && v.Dom[j+1] == v.Dom[j]+1 {
				j++
			}
			if i == j {
				alts = append(alts, tt.mkRaw(&Term{Op: OpEq, S: BoolSort, Args: []*Term{v.T, tt.Const(BV(8), v.Dom[i])}}))
			} else {
				alts = append(alts, tt.mkRaw(&Term{Op: OpAnd, S: BoolSort, Args: []*Term{
					tt.mkRaw(&Term{Op: OpUle, S: BoolSort, Args: []*Term{tt.Const(BV(8), v.Dom[i]), v.T}}),
					tt.mkRaw(&Term{Op: OpUle, S: BoolSort, Args: []*Term{v.T, tt.Const(BV(8), v.Dom[j])}})}}))
			}
			i = j + 1
		}
		var dc *Term
		if len(alts) == 1 {
			dc = alts[0]
		} else {
			dc = p.tt().mkRaw(&Term{Op: OpOr, S: BoolSort, Args: alts})
		}
		dc.RawVar = v
		p.pc = append(p.pc, dc)
	}
	return v
}

func (p *Path) DrawBytes(n int, dom string) Value {
	bs := make([]Value, n)
	d := Draw{Kind: "bytes", N: n, Dom: dom}
	for i := 0; i < n; i++ {
		v := p.newByteVar(dom)
		d.vars = append(d.vars, v)
		if len(v.Dom) == 1 {
			bs[i] = int64(v.Dom[0])
		} else {
			bs[i] = v.T
		}
	}
	p.draws = append(p.draws, d)
	return mkStr(bs)
}

func (p *Path) DrawInt(lo, hi int64, w int) Value {
	if lo > hi {
		panic(pathAbort{abAssumed, "empty int range"})
	}
	var dom []uint64
	if hi-lo < 256 {
		for x := lo; x <= hi; x++ {
			dom = append(dom, uint64(x)&mask(w))
		}
	}
	name := fmt.Sprintf("i%d_%d_%d_%d", len(p.vars), w, lo, hi)
	v := p.tt().NewVar(name, BV(w), dom)
	p.vars = append(p.vars, v)
	tt := p.tt()
	c := tt.mkRaw(&Term{Op: OpAnd, S: BoolSort, Args: []*Term{
		tt.mkRaw(&Term{Op: OpSle, S: BoolSort, Args: []*Term{tt.Const(BV(w), uint64(lo)), v.T}}),
		tt.mkRaw(&Term{Op: OpSle, S: BoolSort, Args: []*Term{v.T, tt.Const(BV(w), uint64(hi))}})}})
	c.RawVar = v
	p.pc = append(p.pc, c)
	p.draws = append(p.draws, Draw{Kind: "int", Lo: lo, Hi: hi, vars: []*Var{v}})
	if lo == hi {
		return lo
	}
	return v.T
}

func (p *Path) DrawBool() Value {
	name := fmt.Sprintf("p%d", len(p.vars))
	v := p.tt().NewVar(name, BoolSort, []uint64{0, 1})
	p.vars = append(p.vars, v)
	p.draws = append(p.draws, Draw{Kind: "bool", vars: []*Var{v}})
	return v.T
}

func (p *Path) DrawReal(lo, hi float64) Value {
	name := fmt.Sprintf("r%d", len(p.vars))
	v := p.tt().NewVar(name, RealSort, nil)
	p.vars = append(p.vars, v)
	tt := p.tt()
	p.pc = append(p.pc, tt.Cmp(OpRLe, tt.RConstF(lo), v.T), tt.Cmp(OpRLe, v.T, tt.RConstF(hi)))
	p.draws = append(p.draws, Draw{Kind: "real", Lo: int64(lo), Hi: int64(hi), vars: []*Var{v}})
	return v.T
}

// toTerm converts a scalar value to a term of the static type.
func (p *Path) toTerm(v Value, t types.Type) *Term {
	switch x := v.(type) {
	case *Term:
		return x
	case bool:
		return p.tt().Bool(x)
	case int64:
		ii, ok := intInfoOf(t)
		if !ok {
			panic(fmt.Sprintf("toTerm: int64 for type %v", t))
		}
		return p.tt().Const(BV(ii.W), uint64(x))
	case float64:
		if p.realMode {
			return p.tt().RConstF(x)
		}
		panic(unsupported("symbolic float64 outside real mode"))
	}
	panic(fmt.Sprintf("toTerm: %T", v))
}

func (p *Path) byteTerm(v Value) *Term {
	switch x := v.(type) {
	case *Term:
		return x
	case int64:
		return p.tt().Const(BV(8), uint64(x))
	}
	panic(fmt.Sprintf("byteTerm: %T", v))
}

func termString(t *Term, depth int) string {
	if t.Op == OpConst || t.Op == OpVar || t.Op == OpRConst {
		return refName(t)
	}
	if depth == 0 {
		return refName(t)
	}
	var as []string
	for _, a := range t.Args {
		as = append(as, termString(a, depth-1))
	}
	return fmt.Sprintf("(%s %s)", opNames[t.Op], strings.Join(as, " "))
}
