package main

// Models of bytes.Reader / strings.Reader / bufio.Scanner (ScanLines), including
// the scanner's token-size limit (bufio.MaxScanTokenSize = 64 KiB unless
// Buffer() raises it): a line whose content does not fit makes Scan return false
// with ErrTooLong, exactly the behaviour that truncates long FASTA records.

import (
	"bufio"
	"go/types"

	"golang.org/x/tools/go/ssa"
)

type readerState struct {
	data []Value
	pos  int
}

// scannerState follows bufio.Scanner (Go 1.23 scan.go) at buffer level, so that
// the token limit, the buffer growth / shifting and the aliasing of Bytes() with
// the internal buffer behave as in the real implementation.
type bufReaderState struct{ r *readerState }

type scannerState struct {
	split   Value // custom split function (nil: bufio.ScanLines)
	r       *readerState
	maxTok  int
	buf     []Value
	start   int
	end     int
	tok     []Value
	err     error
	readErr bool // the reader reported io.EOF
	done    bool
}

const scanStartBufSize = 4096

func readerOf(v Value) *readerState {
	switch x := v.(type) {
	case Iface:
		return readerOf(x.V)
	case *Native:
		if r, ok := x.V.(*readerState); ok {
			return r
		}
	}
	panic(unsupported("io.Reader that is not a bytes.Reader / strings.Reader created in the harness"))
}

var ioReaderType types.Type

func init() {
	models["bytes.NewReader"] = func(p *Path, fn *ssa.Function, a []Value) Value {
		sl := a[0].(Slice)
		return &Native{V: &readerState{data: append([]Value(nil), sl.A...)}}
	}
	models["strings.NewReader"] = func(p *Path, fn *ssa.Function, a []Value) Value {
		return &Native{V: &readerState{data: strBytes(a[0])}}
	}
	models["bufio.NewScanner"] = func(p *Path, fn *ssa.Function, a []Value) Value {
		p.modelsHit["bufio.Scanner (ScanLines, token limit 64 KiB unless Buffer() is called)"] = true
		return &Native{V: &scannerState{r: readerOf(a[0]), maxTok: bufio.MaxScanTokenSize}}
	}
	// bufio.Reader over a harness reader: ReadString / ReadBytes / ReadByte / ReadRune-free subset
	models["bufio.NewReader"] = func(p *Path, fn *ssa.Function, a []Value) Value {
		p.modelsHit["bufio.Reader (ReadString/ReadBytes/ReadLine over an in-memory reader)"] = true
		return &Native{V: &bufReaderState{r: readerOf(a[0])}}
	}
	models["bufio.NewReaderSize"] = func(p *Path, fn *ssa.Function, a []Value) Value {
		return &Native{V: &bufReaderState{r: readerOf(a[0])}}
	}
	bufReader := func(v Value) *bufReaderState { return v.(*Native).V.(*bufReaderState) }
	readUntil := func(p *Path, br *bufReaderState, delim Value) ([]Value, Value) {
		r := br.r
		if r.pos >= len(r.data) {
			return nil, Iface{T: nativeErrorType, V: ioEOF}
		}
		for i := r.pos; i < len(r.data); i++ {
			if p.decideVal(p.equals(types.Typ[types.Uint8], r.data[i], delim)) {
				out := append([]Value(nil), r.data[r.pos:i+1]...)
				r.pos = i + 1
				return out, Iface{}
			}
		}
		out := append([]Value(nil), r.data[r.pos:]...)
		r.pos = len(r.data)
		return out, Iface{T: nativeErrorType, V: ioEOF}
	}
	models["(*bufio.Reader).ReadString"] = func(p *Path, fn *ssa.Function, a []Value) Value {
		out, err := readUntil(p, bufReader(a[0]), a[1])
		return Tuple{mkStr(out), err}
	}
	models["(*bufio.Reader).ReadBytes"] = func(p *Path, fn *ssa.Function, a []Value) Value {
		out, err := readUntil(p, bufReader(a[0]), a[1])
		if out == nil {
			return Tuple{Slice{}, err}
		}
		return Tuple{Slice{A: out}, err}
	}
	models["(*bufio.Reader).ReadByte"] = func(p *Path, fn *ssa.Function, a []Value) Value {
		r := bufReader(a[0]).r
		if r.pos >= len(r.data) {
			return Tuple{int64(0), Iface{T: nativeErrorType, V: ioEOF}}
		}
		b := r.data[r.pos]
		r.pos++
		return Tuple{b, Iface{}}
	}
	scanner := func(v Value) *scannerState { return v.(*Native).V.(*scannerState) }
	models["(*bufio.Scanner).Buffer"] = func(p *Path, fn *ssa.Function, a []Value) Value {
		s := scanner(a[0])
		sl := a[1].(Slice)
		s.buf = sl.A[:cap(sl.A)]
		s.maxTok = int(concreteInt(a[2], "Scanner.Buffer max"))
		return nil
	}
	models["(*bufio.Scanner).Scan"] = func(p *Path, fn *ssa.Function, a []Value) Value {
		s := scanner(a[0])
		if s.done {
			return false
		}
		for {
			if s.end > s.start || s.readErr {
				// ScanLines on buf[start:end]
				data := s.buf[s.start:s.end]
				advance := 0
				var token []Value
				haveToken := false
				if s.split != nil {
					// the code under test supplied its own split function: call it
					res := p.call(s.split, []Value{Slice{A: data}, s.readErr}, nil).(Tuple)
					advance = int(concreteInt(res[0], "split advance"))
					tok, _ := res[1].(Slice)
					if e, _ := res[2].(Iface); e.T != nil {
						s.done = true
						if tok.A != nil {
							s.tok = tok.A
							return true
						}
						return false
					}
					if advance < 0 || advance > len(data) {
						s.done = true
						return false
					}
					if tok.A != nil {
						token, haveToken = tok.A, true
					}
				} else if !(s.readErr && len(data) == 0) {
					nl := -1
					for i, b := range data {
						if p.decideVal(p.equalsByte(b, '\n')) {
							nl = i
							break
						}
					}
					if nl >= 0 {
						advance, token, haveToken = nl+1, data[:nl], true
					} else if s.readErr {
						advance, token, haveToken = len(data), data, true
					}
					if haveToken {
						if n := len(token); n > 0 && p.decideVal(p.equalsByte(token[n-1], '\r')) {
							token = token[:n-1]
						}
					}
				}
				s.start += advance
				if haveToken {
					s.tok = token
					return true
				}
			}
			if s.readErr {
				s.start, s.end = 0, 0
				s.done = true
				return false
			}
			// must read more data: first, shift data to the beginning of the buffer
			if s.start > 0 && (s.end == len(s.buf) || s.start > len(s.buf)/2) {
				copy(s.buf, s.buf[s.start:s.end])
				s.end -= s.start
				s.start = 0
			}
			// is the buffer full? if so, resize
			if s.end == len(s.buf) {
				if len(s.buf) >= s.maxTok {
					s.err = bufio.ErrTooLong
					s.done = true
					return false
				}
				newSize := len(s.buf) * 2
				if newSize == 0 {
					newSize = scanStartBufSize
				}
				if newSize > s.maxTok {
					newSize = s.maxTok
				}
				nb := make([]Value, newSize)
				for i := range nb {
					nb[i] = int64(0)
				}
				copy(nb, s.buf[s.start:s.end])
				s.buf = nb
				s.end -= s.start
				s.start = 0
			}
			// read (bytes.Reader / strings.Reader semantics: as much as fits, io.EOF when exhausted)
			r := s.r
			if r.pos >= len(r.data) {
				s.readErr = true
			} else {
				n := copy(s.buf[s.end:], r.data[r.pos:])
				r.pos += n
				s.end += n
			}
		}
	}
	models["(*bufio.Scanner).Split"] = func(p *Path, fn *ssa.Function, a []Value) Value {
		s := scanner(a[0])
		if f, ok := a[1].(*ssa.Function); ok && f.String() == "bufio.ScanLines" {
			s.split = nil
			return nil
		}
		if f, ok := a[1].(*ssa.Function); ok && f.Pkg != nil && f.Pkg.Pkg.Path() == "bufio" {
			panic(unsupported("bufio split function %s", f.Name()))
		}
		s.split = a[1]
		return nil
	}
	models["(*bufio.Scanner).Text"] = func(p *Path, fn *ssa.Function, a []Value) Value {
		return mkStr(append([]Value(nil), scanner(a[0]).tok...))
	}
	models["(*bufio.Scanner).Bytes"] = func(p *Path, fn *ssa.Function, a []Value) Value {
		// the token aliases the scanner's buffer, exactly as in bufio
		return Slice{A: scanner(a[0]).tok}
	}
	models["(*bufio.Scanner).Err"] = func(p *Path, fn *ssa.Function, a []Value) Value {
		s := scanner(a[0])
		if s.err == nil {
			return Iface{}
		}
		return Iface{T: nativeErrorType, V: &Native{V: s.err}}
	}
}
