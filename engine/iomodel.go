package main

// Models of bytes.Reader / strings.Reader / bufio.Scanner (ScanLines), including
// the scanner's token-size limit (bufio.MaxScanTokenSize = 64 KiB unless
// Buffer() raises it): a line whose content does not fit makes Scan return false
// with ErrTooLong, exactly the behaviour that truncates long FASTA records.

import (
	"bufio"
	"go/types"

	"golang.org/x/tools/go/ssa"
)

type readerState struct {
	data []Value
	pos  int
}

type scannerState struct {
	r      *readerState
	maxTok int
	tok    []Value
	err    error
	done   bool
}

func readerOf(v Value) *readerState {
	switch x := v.(type) {
	case Iface:
		return readerOf(x.V)
	case *Native:
		if r, ok := x.V.(*readerState); ok {
			return r
		}
	}
	panic(unsupported("io.Reader that is not a bytes.Reader / strings.Reader created in the harness"))
}

var ioReaderType types.Type

func init() {
	models["bytes.NewReader"] = func(p *Path, fn *ssa.Function, a []Value) Value {
		sl := a[0].(Slice)
		return &Native{V: &readerState{data: append([]Value(nil), sl.A...)}}
	}
	models["strings.NewReader"] = func(p *Path, fn *ssa.Function, a []Value) Value {
		return &Native{V: &readerState{data: strBytes(a[0])}}
	}
	models["bufio.NewScanner"] = func(p *Path, fn *ssa.Function, a []Value) Value {
		p.modelsHit["bufio.Scanner (ScanLines, token limit 64 KiB unless Buffer() is called)"] = true
		return &Native{V: &scannerState{r: readerOf(a[0]), maxTok: bufio.MaxScanTokenSize}}
	}
	scanner := func(v Value) *scannerState { return v.(*Native).V.(*scannerState) }
	models["(*bufio.Scanner).Buffer"] = func(p *Path, fn *ssa.Function, a []Value) Value {
		s := scanner(a[0])
		s.maxTok = int(concreteInt(a[2], "Scanner.Buffer max"))
		return nil
	}
	models["(*bufio.Scanner).Scan"] = func(p *Path, fn *ssa.Function, a []Value) Value {
		s := scanner(a[0])
		if s.done {
			return false
		}
		r := s.r
		if r.pos >= len(r.data) {
			s.done = true
			return false
		}
		// find the next newline
		end := -1
		for i := r.pos; i < len(r.data); i++ {
			if p.decideVal(p.equalsByte(r.data[i], '\n')) {
				end = i
				break
			}
			// the buffer (at most maxTok bytes) is full without a line terminator
			if i-r.pos+1 >= s.maxTok {
				s.done = true
				s.err = bufio.ErrTooLong
				return false
			}
		}
		var tok []Value
		if end >= 0 {
			tok = r.data[r.pos:end]
			r.pos = end + 1
		} else {
			tok = r.data[r.pos:]
			r.pos = len(r.data)
		}
		// drop a trailing carriage return
		if n := len(tok); n > 0 && p.decideVal(p.equalsByte(tok[n-1], '\r')) {
			tok = tok[:n-1]
		}
		s.tok = tok
		return true
	}
	models["(*bufio.Scanner).Text"] = func(p *Path, fn *ssa.Function, a []Value) Value {
		return mkStr(append([]Value(nil), scanner(a[0]).tok...))
	}
	models["(*bufio.Scanner).Bytes"] = func(p *Path, fn *ssa.Function, a []Value) Value {
		t := scanner(a[0]).tok
		return Slice{A: append(make([]Value, 0, len(t)), t...)}
	}
	models["(*bufio.Scanner).Err"] = func(p *Path, fn *ssa.Function, a []Value) Value {
		s := scanner(a[0])
		if s.err == nil {
			return Iface{}
		}
		return Iface{T: nativeErrorType, V: &Native{V: s.err}}
	}
}
