package main

// Further symbolic-aware models, added so that refactorings of the library that
// reach for neighbouring stdlib functions are still executable.

import (
	"go/types"
	"os"
	"strings"

	"golang.org/x/tools/go/ssa"
)

func (p *Path) runeRange(r Value, lo, hi int64) Value {
	switch x := r.(type) {
	case int64:
		return x >= lo && x <= hi
	case *Term:
		tt := p.tt()
		return termOrBool(tt.And(tt.Cmp(OpSle, tt.Const(x.S, uint64(lo)), x), tt.Cmp(OpSle, x, tt.Const(x.S, uint64(hi)))))
	}
	panic("runeRange")
}

func (p *Path) requireASCIIRune(r Value, what string) {
	if x, ok := r.(*Term); ok {
		tt := p.tt()
		if p.Decide(tt.Not(tt.And(tt.Cmp(OpSle, tt.Const(x.S, 0), x), tt.Cmp(OpSlt, x, tt.Const(x.S, 0x80))))) {
			panic(unsupported("non-ASCII rune in %s (outside the ASCII-only claim)", what))
		}
	} else if c, ok := r.(int64); ok && (c < 0 || c >= 0x80) {
		panic(unsupported("non-ASCII rune in %s (outside the ASCII-only claim)", what))
	}
}

type replacerState struct{ pairs []Value }

func sliceStr(v Value) Value {
	switch x := v.(type) {
	case Slice:
		return mkStr(append([]Value(nil), x.A...))
	}
	return v
}

func strSliceVal(v Value) Value {
	bs := strBytes(v)
	return Slice{A: append(make([]Value, 0, len(bs)), bs...)}
}

func init() {
	runeCase := func(upper bool) modelFn {
		return func(p *Path, fn *ssa.Function, a []Value) Value {
			if c, ok := a[0].(int64); ok {
				if upper {
					return int64([]rune(strings.ToUpper(string(rune(c))))[0])
				}
				return int64([]rune(strings.ToLower(string(rune(c))))[0])
			}
			p.requireASCIIRune(a[0], "unicode.ToUpper/ToLower")
			x := a[0].(*Term)
			tt := p.tt()
			lo, hi, d := int64('a'), int64('z'), int64(-32)
			if !upper {
				lo, hi, d = 'A', 'Z', 32
			}
			in := p.boolTerm(p.runeRange(x, lo, hi))
			return termOrInt(tt.Ite(in, tt.Bin(OpAdd, x, tt.Const(x.S, uint64(d))), x), intInfo{32, true})
		}
	}
	models["unicode.ToUpper"] = runeCase(true)
	models["unicode.ToLower"] = runeCase(false)
	models["unicode.IsUpper"] = func(p *Path, fn *ssa.Function, a []Value) Value {
		p.requireASCIIRune(a[0], "unicode.IsUpper")
		return p.runeRange(a[0], 'A', 'Z')
	}
	models["unicode.IsLower"] = func(p *Path, fn *ssa.Function, a []Value) Value {
		p.requireASCIIRune(a[0], "unicode.IsLower")
		return p.runeRange(a[0], 'a', 'z')
	}
	models["unicode.IsDigit"] = func(p *Path, fn *ssa.Function, a []Value) Value {
		p.requireASCIIRune(a[0], "unicode.IsDigit")
		return p.runeRange(a[0], '0', '9')
	}
	models["unicode.IsLetter"] = func(p *Path, fn *ssa.Function, a []Value) Value {
		p.requireASCIIRune(a[0], "unicode.IsLetter")
		return p.boolOr(p.runeRange(a[0], 'a', 'z'), p.runeRange(a[0], 'A', 'Z'))
	}
	models["unicode.IsSpace"] = func(p *Path, fn *ssa.Function, a []Value) Value {
		p.requireASCIIRune(a[0], "unicode.IsSpace")
		return p.boolOr(p.runeRange(a[0], '\t', '\r'), p.runeRange(a[0], ' ', ' '))
	}
	indexOfByte := func(p *Path, s Value, c Value, ct types.Type) Value {
		bs := strBytes(s)
		for i, b := range bs {
			var bv Value = b
			if basicOf(ct).Kind() != types.Uint8 {
				bv = p.runeOfByte(b, "strings.IndexRune")
			}
			if p.decideVal(p.equals(ct, bv, c)) {
				return int64(i)
			}
		}
		return int64(-1)
	}
	models["strings.IndexByte"] = func(p *Path, fn *ssa.Function, a []Value) Value {
		return indexOfByte(p, a[0], a[1], types.Typ[types.Uint8])
	}
	models["strings.IndexRune"] = func(p *Path, fn *ssa.Function, a []Value) Value {
		return indexOfByte(p, a[0], a[1], types.Typ[types.Rune])
	}
	models["strings.ContainsRune"] = func(p *Path, fn *ssa.Function, a []Value) Value {
		var acc Value = false
		for _, b := range strBytes(a[0]) {
			acc = p.boolOr(acc, p.equals(types.Typ[types.Rune], p.runeOfByte(b, "strings.ContainsRune"), a[1]))
		}
		return acc
	}
	models["strings.IndexAny"] = func(p *Path, fn *ssa.Function, a []Value) Value {
		chars := strBytes(a[1])
		for i, b := range strBytes(a[0]) {
			var in Value = false
			for _, c := range chars {
				in = p.boolOr(in, p.equals(types.Typ[types.Uint8], b, c))
			}
			if p.decideVal(in) {
				return int64(i)
			}
		}
		return int64(-1)
	}
	trim := func(left, right bool) modelFn {
		return func(p *Path, fn *ssa.Function, a []Value) Value {
			s := a[0]
			cut := concreteString(a[1], "Trim cutset")
			inCut := func(b Value) Value {
				var in Value = false
				for i := 0; i < len(cut); i++ {
					in = p.boolOr(in, p.equals(types.Typ[types.Uint8], b, int64(cut[i])))
				}
				return in
			}
			lo, hi := 0, strLen(s)
			for left && lo < hi && p.decideVal(inCut(strAt(s, lo))) {
				lo++
			}
			for right && hi > lo && p.decideVal(inCut(strAt(s, hi-1))) {
				hi--
			}
			return strSlice(s, lo, hi)
		}
	}
	models["strings.TrimRight"] = trim(false, true)
	models["strings.Trim"] = trim(true, true)
	models["strings.Fields"] = func(p *Path, fn *ssa.Function, a []Value) Value {
		s := a[0]
		if c, ok := concStr(s); ok {
			f := strings.Fields(c)
			out := make([]Value, len(f))
			for i := range f {
				out[i] = f[i]
			}
			return Slice{A: out}
		}
		var out []Value
		n := strLen(s)
		i := 0
		for i < n {
			for i < n && p.decideVal(p.isSpaceByte(strAt(s, i))) {
				i++
			}
			st := i
			for i < n && !p.decideVal(p.isSpaceByte(strAt(s, i))) {
				i++
			}
			if i > st {
				out = append(out, strSlice(s, st, i))
			}
		}
		return Slice{A: out}
	}
	// strings.NewReplacer / Replace: at every position the first old string (in argument order)
	// that matches is replaced, matches do not overlap
	models["strings.NewReplacer"] = func(p *Path, fn *ssa.Function, a []Value) Value {
		sl := a[0].(Slice)
		if len(sl.A)%2 == 1 {
			p.goPanicf("strings.NewReplacer: odd argument count")
		}
		return &Native{V: &replacerState{pairs: append([]Value(nil), sl.A...)}}
	}
	models["(*strings.Replacer).Replace"] = func(p *Path, fn *ssa.Function, a []Value) Value {
		r := a[0].(*Native).V.(*replacerState)
		s := a[1]
		n := strLen(s)
		var out []Value
		for i := 0; i < n; {
			matched := false
			for k := 0; k+1 < len(r.pairs); k += 2 {
				old := r.pairs[k]
				ol := strLen(old)
				if ol == 0 {
					panic(unsupported("strings.Replacer with an empty old string"))
				}
				if i+ol <= n && p.decideVal(p.matchAt(s, i, old)) {
					out = append(out, strBytes(r.pairs[k+1])...)
					i += ol
					matched = true
					break
				}
			}
			if !matched {
				out = append(out, strAt(s, i))
				i++
			}
		}
		return mkStr(out)
	}
	models["strings.EqualFold"] = func(p *Path, fn *ssa.Function, a []Value) Value {
		return p.strEq(p.mapCase(a[0], true), p.mapCase(a[1], true))
	}
	models["(*strings.Builder).Write"] = func(p *Path, fn *ssa.Function, a []Value) Value {
		b := p.buf(a[0])
		sl := a[1].(Slice)
		b.b = append(b.b, sl.A...)
		return Tuple{int64(len(sl.A)), Iface{}}
	}
	// sync.Map: an interface-keyed map in the side table of the cell
	anyType := types.NewInterfaceType(nil, nil)
	syncMap := func(p *Path, ptr Value) *Map {
		c := ptr.(*Value)
		if st, ok := p.side[c]; ok {
			return st.(*Map)
		}
		m := newMap(anyType, anyType)
		p.side[c] = m
		return m
	}
	smt := types.NewMap(anyType, anyType)
	models["(*sync.Map).Load"] = func(p *Path, fn *ssa.Function, a []Value) Value {
		v, ok := p.mapLookup(syncMap(p, a[0]), a[1], smt)
		if b, isB := ok.(bool); isB && !b {
			return Tuple{Iface{}, false}
		}
		return Tuple{v, ok}
	}
	models["(*sync.Map).Store"] = func(p *Path, fn *ssa.Function, a []Value) Value {
		p.mapStore(syncMap(p, a[0]), a[1], a[2])
		return nil
	}
	models["(*sync.Map).LoadOrStore"] = func(p *Path, fn *ssa.Function, a []Value) Value {
		m := syncMap(p, a[0])
		v, ok := p.mapLookup(m, a[1], smt)
		if p.decideVal(ok) {
			return Tuple{v, true}
		}
		p.mapStore(m, a[1], a[2])
		return Tuple{a[2], false}
	}
	models["(*sync.Map).Delete"] = func(p *Path, fn *ssa.Function, a []Value) Value {
		p.mapDelete(syncMap(p, a[0]), a[1])
		return nil
	}
	// sync.Pool under the cooperative scheduler: Put keeps the item, Get hands back the most
	// recently kept one (what one P does without a GC in between) or calls New
	type poolState struct{ items []Value }
	poolOf := func(p *Path, ptr Value) *poolState {
		c := ptr.(*Value)
		if st, ok := p.side[c]; ok {
			return st.(*poolState)
		}
		st := &poolState{}
		p.side[c] = st
		return st
	}
	models["(*sync.Pool).Put"] = func(p *Path, fn *ssa.Function, a []Value) Value {
		p.stubsHit["sync.Pool (Get returns the most recently Put item, else New())"] = true
		if itf, ok := a[1].(Iface); ok && itf.T == nil {
			return nil
		}
		st := poolOf(p, a[0])
		st.items = append(st.items, a[1])
		return nil
	}
	models["(*sync.Pool).Get"] = func(p *Path, fn *ssa.Function, a []Value) Value {
		p.stubsHit["sync.Pool (Get returns the most recently Put item, else New())"] = true
		st := poolOf(p, a[0])
		if n := len(st.items); n > 0 {
			it := st.items[n-1]
			st.items = st.items[:n-1]
			return it
		}
		cell := a[0].(*Value)
		pt := fn.Signature.Recv().Type().(*types.Pointer).Elem().Underlying().(*types.Struct)
		for i := 0; i < pt.NumFields(); i++ {
			if pt.Field(i).Name() == "New" {
				nf := (*cell).(Struct)[i]
				if nf == nil {
					return Iface{}
				}
				if c, ok := nf.(*Closure); ok && c == nil {
					return Iface{}
				}
				return p.call(nf, nil, nil)
			}
		}
		return Iface{}
	}
	models["(*sync.Mutex).Lock"] = func(p *Path, fn *ssa.Function, a []Value) Value { return nil }
	models["(*sync.Mutex).Unlock"] = func(p *Path, fn *ssa.Function, a []Value) Value { return nil }
	models["(*sync.RWMutex).Lock"] = models["(*sync.Mutex).Lock"]
	models["(*sync.RWMutex).Unlock"] = models["(*sync.Mutex).Lock"]
	models["(*sync.RWMutex).RLock"] = models["(*sync.Mutex).Lock"]
	models["(*sync.RWMutex).RUnlock"] = models["(*sync.Mutex).Lock"]
	// read-only file access for translator-validation vectors: the repository's own data
	// files, resolved relative to the harness package directory (as `go test` does)
	writeFile := func(p *Path, fn *ssa.Function, a []Value) Value {
		name := concreteString(a[0], "file name")
		if p.files == nil {
			p.files = map[string][]Value{}
		}
		sl, _ := a[1].(Slice)
		if len(sl.A) == 1 {
			if n, ok := sl.A[0].(*Native); ok {
				if _, isBlob := n.V.(*jsonBlob); isBlob {
					p.files[name] = sl.A
					return Iface{}
				}
			}
		}
		p.files[name] = append([]Value(nil), sl.A...)
		p.stubsHit["file system: in-memory files for Write*/Read* of the code under test"] = true
		return Iface{}
	}
	models["io/ioutil.WriteFile"] = writeFile
	models["os.WriteFile"] = writeFile
	models["os.TempDir"] = func(p *Path, fn *ssa.Function, a []Value) Value { return "/tmp" }
	models["os.Remove"] = func(p *Path, fn *ssa.Function, a []Value) Value {
		delete(p.files, concreteString(a[0], "file name"))
		return Iface{}
	}
	readFile := func(p *Path, fn *ssa.Function, a []Value) Value {
		name := concreteString(a[0], "file name")
		if data, ok := p.files[name]; ok {
			return Tuple{Slice{A: append([]Value(nil), data...)}, Iface{}}
		}
		full := name
		if !strings.HasPrefix(name, "/") {
			full = repoDir + "/" + p.harnessRel + "/" + name
		}
		b, err := os.ReadFile(full)
		if err != nil {
			return Tuple{Slice{}, Iface{T: nativeErrorType, V: &Native{V: err}}}
		}
		out := make([]Value, len(b))
		for i, c := range b {
			out[i] = int64(c)
		}
		p.stubsHit["os.ReadFile (read-only, repository data files in selftests)"] = true
		return Tuple{Slice{A: out}, Iface{}}
	}
	models["io/ioutil.ReadFile"] = readFile
	models["os.ReadFile"] = readFile
	models["bytes.Equal"] = func(p *Path, fn *ssa.Function, a []Value) Value { return p.strEq(sliceStr(a[0]), sliceStr(a[1])) }
	models["bytes.ToUpper"] = func(p *Path, fn *ssa.Function, a []Value) Value { return strSliceVal(p.mapCase(sliceStr(a[0]), true)) }
	models["bytes.ToLower"] = func(p *Path, fn *ssa.Function, a []Value) Value { return strSliceVal(p.mapCase(sliceStr(a[0]), false)) }
	models["bytes.HasPrefix"] = func(p *Path, fn *ssa.Function, a []Value) Value {
		return models["strings.HasPrefix"](p, fn, []Value{sliceStr(a[0]), sliceStr(a[1])})
	}
	models["bytes.HasSuffix"] = func(p *Path, fn *ssa.Function, a []Value) Value {
		return models["strings.HasSuffix"](p, fn, []Value{sliceStr(a[0]), sliceStr(a[1])})
	}
	models["bytes.Contains"] = func(p *Path, fn *ssa.Function, a []Value) Value { return p.strContains(sliceStr(a[0]), sliceStr(a[1])) }
	models["bytes.IndexByte"] = func(p *Path, fn *ssa.Function, a []Value) Value {
		return indexOfByte(p, sliceStr(a[0]), a[1], types.Typ[types.Uint8])
	}
	models["bytes.TrimSpace"] = func(p *Path, fn *ssa.Function, a []Value) Value {
		return strSliceVal(modelTrimSpace(p, fn, []Value{sliceStr(a[0])}))
	}
	models["bytes.Index"] = func(p *Path, fn *ssa.Function, a []Value) Value {
		return int64(p.strIndex(sliceStr(a[0]), sliceStr(a[1]), 0))
	}
	models["bytes.Split"] = func(p *Path, fn *ssa.Function, a []Value) Value {
		parts := p.strSplit(sliceStr(a[0]), sliceStr(a[1]), false, -1).(Slice)
		out := make([]Value, len(parts.A))
		for i, x := range parts.A {
			out[i] = strSliceVal(x)
		}
		return Slice{A: out}
	}
}
