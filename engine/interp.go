package main

// SSA interpreter over symbolic values (structure after x/tools go/ssa/interp).

import (
	"fmt"
	"go/constant"
	"go/token"
	"go/types"
	"runtime"
	"strings"

	"golang.org/x/tools/go/ssa"
)

var runtimeErrorType = types.NewNamed(types.NewTypeName(token.NoPos, nil, "runtimeError", nil), types.Typ[types.String], nil)
var nativeErrorType = types.NewNamed(types.NewTypeName(token.NoPos, nil, "nativeError", nil), types.Typ[types.String], nil)

type deferred struct {
	fn   Value
	args []Value
	tail *deferred
	site *ssa.Defer
}

type Frame struct {
	p         *Path
	fn        *ssa.Function
	env       map[ssa.Value]Value
	block     *ssa.BasicBlock
	prev      *ssa.BasicBlock
	defers    *deferred
	result    Value
	panicking bool
	panicVal  interface{}
	caller    *Frame
}

func (fr *Frame) get(key ssa.Value) Value {
	switch key := key.(type) {
	case nil:
		return nil
	case *ssa.Function, *ssa.Builtin:
		return key
	case *ssa.Const:
		return fr.p.constValue(key)
	case *ssa.Global:
		return fr.p.globalCell(key)
	}
	if r, ok := fr.env[key]; ok {
		return r
	}
	panic(fmt.Sprintf("get: no value for %T: %v in %s", key, key.Name(), fr.fn))
}

func (p *Path) constValue(c *ssa.Const) Value {
	if c.Value == nil {
		return zero(c.Type())
	}
	t := c.Type().Underlying()
	if b, ok := t.(*types.Basic); ok {
		switch {
		case b.Info()&types.IsBoolean != 0:
			return constant.BoolVal(c.Value)
		case b.Info()&types.IsInteger != 0:
			ii, _ := intInfoOf(b)
			if ii.Signed {
				return normInt(c.Int64(), ii)
			}
			return normInt(int64(c.Uint64()), ii)
		case b.Info()&types.IsFloat != 0:
			f := c.Float64()
			if b.Kind() == types.Float32 {
				f = float64(float32(f))
			}
			return f
		case b.Info()&types.IsString != 0:
			if c.Value.Kind() == constant.String {
				return constant.StringVal(c.Value)
			}
			return string(rune(c.Int64()))
		}
	}
	panic(unsupported("constant %v of type %v", c, c.Type()))
}

func (p *Path) globalCell(g *ssa.Global) *Value {
	if c, ok := p.globals[g]; ok {
		return c
	}
	if g.Pkg != nil && !p.w.eng.initAllowed(g.Pkg) && !strings.HasPrefix(g.Name(), "init$") {
		if nv, ok := p.w.eng.nativeGlobal(g); ok {
			c := new(Value)
			*c = nv
			p.globals[g] = c
			return c
		}
		panic(unsupported("package-level variable %s of a package that is not initialised by the engine", g.String()))
	}
	c := new(Value)
	*c = zero(g.Type().(*types.Pointer).Elem())
	p.globals[g] = c
	return c
}

// ---- calls ------------------------------------------------------------------

func (p *Path) call(fv Value, args []Value, site ssa.Instruction) Value {
	switch f := fv.(type) {
	case *ssa.Function:
		if f == nil {
			p.goPanicf("runtime error: invalid memory address or nil pointer dereference (nil func)")
		}
		return p.callFn(f, args, nil)
	case *Closure:
		if f == nil {
			p.goPanicf("runtime error: invalid memory address or nil pointer dereference (nil func)")
		}
		return p.callFn(f.Fn, args, f.Env)
	case *ssa.Builtin:
		return p.callBuiltin(f, args, site)
	case *BoundMethod:
		return p.callFn(f.Fn, append([]Value{f.Recv}, args...), nil)
	case *primFunc:
		return f.fn(p, args)
	case nil:
		p.goPanicf("runtime error: invalid memory address or nil pointer dereference (nil func)")
	}
	panic(fmt.Sprintf("call: %T", fv))
}

func (p *Path) callFn(fn *ssa.Function, args []Value, env []Value) Value {
	if p.w.eng.isPrimitive(fn) {
		return p.prim(fn, args)
	}
	if fn.Synthetic == "package initializer" && fn.Pkg != nil && !p.w.eng.initAllowed(fn.Pkg) {
		return nil // standard-library initialisers are not run by the engine
	}
	name := fn.String()
	if m, ok := models[name]; ok {
		p.modelsHit[name] = true
		return m(p, fn, args)
	}
	if nf, ok := natives[name]; ok {
		if r, ok := p.callNative(name, nf, fn, args); ok {
			return r
		}
		if concretizeForNative[name] {
			// no model: every feasible value of the symbolic string operands is a path of its own
			cargs := append([]Value(nil), args...)
			for i, a := range cargs {
				if _, sym := a.(*SymStr); sym {
					cargs[i] = p.concretizeStr(a)
				}
			}
			if r, ok := p.callNative(name, nf, fn, cargs); ok {
				return r
			}
		}
		if fn.Blocks == nil || !p.w.eng.interpretable(fn) {
			panic(unsupported("call of %s with symbolic arguments (no model)", name))
		}
	}
	if fn.Blocks == nil {
		panic(unsupported("external function %s (no body, no model)", name))
	}
	if !p.w.eng.interpretable(fn) {
		panic(unsupported("function %s (standard library body not interpretable, no model)", name))
	}
	return p.callSSA(fn, args, env)
}

func (p *Path) callSSA(fn *ssa.Function, args []Value, env []Value) Value {
	p.depth++
	if p.depth > p.maxDepth {
		panic(pathAbort{abBudget, fmt.Sprintf("call depth %d exceeded in %s", p.maxDepth, fn)})
	}
	defer func() { p.depth-- }()
	if fn.Pkg != nil && p.w.eng.isTarget(fn.Pkg) {
		p.fnsHit[fn] = true
	} else if fn.Origin() != nil && fn.Origin().Pkg != nil && p.w.eng.isTarget(fn.Origin().Pkg) {
		p.fnsHit[fn] = true
	} else if fn.Parent() != nil {
		par := fn
		for par.Parent() != nil {
			par = par.Parent()
		}
		if par.Pkg != nil && p.w.eng.isTarget(par.Pkg) {
			p.fnsHit[par] = true
		}
	}
	fr := &Frame{p: p, fn: fn, env: make(map[ssa.Value]Value, 16), caller: p.cur}
	p.cur = fr
	defer func() { p.cur = fr.caller }()
	for i, prm := range fn.Params {
		fr.env[prm] = args[i]
	}
	for i, fv := range fn.FreeVars {
		fr.env[fv] = env[i]
	}
	fr.block = fn.Blocks[0]
	for fr.block != nil {
		runFrame(fr)
	}
	return fr.result
}

func isAbort(r interface{}) bool {
	switch r.(type) {
	case pathAbort:
		return true
	case goPanic:
		return false
	}
	return true // engine-internal failure (runtime.Error etc.): never handled by interpreted code
}

func runFrame(fr *Frame) {
	defer func() {
		if fr.block == nil {
			return // normal return
		}
		r := recover()
		if r == nil {
			return
		}
		if isAbort(r) {
			fr.block = nil
			if _, ok := r.(pathAbort); !ok {
				if _, ok2 := r.(engineError); !ok2 {
					buf := make([]byte, 4096)
					n := runtime.Stack(buf, false)
					r = engineError{fmt.Sprintf("%v in %s\n%s", r, fr.fn, buf[:n])}
				}
			}
			panic(r)
		}
		fr.panicking = true
		fr.panicVal = r
		fr.runDefers()
		fr.block = fr.fn.Recover
		if fr.block == nil {
			// recovered, but no recover block: return zero results
			fr.result = zeroResults(fr.fn)
		}
	}()
	for {
		blk := fr.block
		for _, instr := range blk.Instrs {
			fr.p.step()
			switch visitInstr(fr, instr) {
			case kReturn:
				return
			case kNext:
			case kJump:
				goto next
			}
		}
		panic("block without terminator")
	next:
	}
}

type engineError struct{ msg string }

func zeroResults(fn *ssa.Function) Value {
	res := fn.Signature.Results()
	switch res.Len() {
	case 0:
		return nil
	case 1:
		return zero(res.At(0).Type())
	}
	return zero(res)
}

func (fr *Frame) runDefers() {
	for d := fr.defers; d != nil; d = d.tail {
		fr.runDefer(d)
	}
	fr.defers = nil
	if fr.panicking {
		panic(fr.panicVal)
	}
}

func (fr *Frame) runDefer(d *deferred) {
	ok := false
	defer func() {
		if !ok {
			r := recover()
			if isAbort(r) {
				panic(r)
			}
			fr.panicking = true
			fr.panicVal = r
		}
	}()
	fr.p.call(d.fn, d.args, d.site)
	ok = true
}

func (p *Path) doRecover(deferFrame *Frame) Value {
	// recover() is only effective when called directly by a deferred function:
	// the frame that is running defers is deferFrame's caller chain top.
	fr := deferFrame
	if fr != nil && fr.panicking {
		fr.panicking = false
		if gp, ok := fr.panicVal.(goPanic); ok {
			return gp.v
		}
	}
	return Iface{}
}

type cont int

const (
	kNext cont = iota
	kReturn
	kJump
)

func (fr *Frame) concInt(v Value, what string) int {
	switch x := v.(type) {
	case int64:
		return int(x)
	case *Term:
		return int(fr.p.Concretize(x, what))
	}
	panic(fmt.Sprintf("concInt %T", v))
}

func visitInstr(fr *Frame, instr ssa.Instruction) cont {
	p := fr.p
	switch instr := instr.(type) {
	case *ssa.DebugRef:
	case *ssa.UnOp:
		fr.env[instr] = fr.unop(instr)
	case *ssa.BinOp:
		fr.env[instr] = p.binop(instr.Op, instr.X.Type(), fr.get(instr.X), fr.get(instr.Y), instr.Y.Type())
	case *ssa.Call:
		fn, args := fr.prepareCall(&instr.Call)
		fr.env[instr] = p.call(fn, args, instr)
	case *ssa.ChangeInterface:
		fr.env[instr] = fr.get(instr.X)
	case *ssa.ChangeType:
		fr.env[instr] = fr.get(instr.X)
	case *ssa.Convert:
		fr.env[instr] = p.conv(instr.Type(), instr.X.Type(), fr.get(instr.X))
	case *ssa.SliceToArrayPointer:
		panic(unsupported("slice to array pointer conversion"))
	case *ssa.MakeInterface:
		fr.env[instr] = Iface{T: instr.X.Type(), V: fr.get(instr.X)}
	case *ssa.Extract:
		fr.env[instr] = fr.get(instr.Tuple).(Tuple)[instr.Index]
	case *ssa.Slice:
		fr.env[instr] = fr.slice(instr)
	case *ssa.Return:
		switch len(instr.Results) {
		case 0:
		case 1:
			fr.result = fr.get(instr.Results[0])
		default:
			var res Tuple
			for _, r := range instr.Results {
				res = append(res, fr.get(r))
			}
			fr.result = res
		}
		fr.block = nil
		return kReturn
	case *ssa.RunDefers:
		fr.runDefers()
	case *ssa.Panic:
		v := fr.get(instr.X)
		panic(goPanic{v: v, msg: p.panicMessage(v)})
	case *ssa.Send:
		p.chanSend(fr.get(instr.Chan), fr.get(instr.X))
	case *ssa.Store:
		addr := fr.get(instr.Addr).(*Value)
		if addr == nil {
			p.goPanicf("runtime error: invalid memory address or nil pointer dereference")
		}
		storeInto(addr, fr.get(instr.Val))
	case *ssa.If:
		c := fr.get(instr.Cond)
		var d bool
		switch cv := c.(type) {
		case bool:
			d = cv
		case *Term:
			d = p.Decide(cv)
		default:
			panic(fmt.Sprintf("If cond %T", c))
		}
		succ := 1
		if d {
			succ = 0
		}
		fr.prev, fr.block = fr.block, fr.block.Succs[succ]
		return kJump
	case *ssa.Jump:
		fr.prev, fr.block = fr.block, fr.block.Succs[0]
		return kJump
	case *ssa.Defer:
		fn, args := fr.prepareCall(&instr.Call)
		fr.defers = &deferred{fn: fn, args: args, site: instr, tail: fr.defers}
	case *ssa.Go:
		fn, args := fr.prepareCall(&instr.Call)
		p.spawn(fn, args, instr)
	case *ssa.MakeChan:
		fr.env[instr] = p.makeChan(fr.concInt(fr.get(instr.Size), "channel capacity"))
	case *ssa.Alloc:
		var addr *Value
		if instr.Heap {
			addr = new(Value)
			fr.env[instr] = addr
		} else {
			if a, ok := fr.env[instr]; ok {
				addr = a.(*Value)
			} else {
				addr = new(Value)
				fr.env[instr] = addr
			}
		}
		*addr = zero(instr.Type().Underlying().(*types.Pointer).Elem())
	case *ssa.MakeSlice:
		n := fr.concInt(fr.get(instr.Len), "make length")
		c := fr.concInt(fr.get(instr.Cap), "make capacity")
		if n < 0 || c < n {
			p.goPanicf("runtime error: makeslice: len out of range")
		}
		if c > 1<<24 {
			panic(unsupported("makeslice of %d elements", c))
		}
		et := instr.Type().Underlying().(*types.Slice).Elem()
		a := make([]Value, n, c)
		z := zero(et)
		for i := range a {
			a[i] = copyVal(z)
		}
		fr.env[instr] = Slice{A: a}
	case *ssa.MakeMap:
		mt := instr.Type().Underlying().(*types.Map)
		fr.env[instr] = newMap(mt.Key(), mt.Elem())
	case *ssa.Range:
		fr.env[instr] = p.rangeIter(fr.get(instr.X), instr.X.Type())
	case *ssa.Next:
		fr.env[instr] = fr.get(instr.Iter).(iter).next(p)
	case *ssa.FieldAddr:
		x := fr.get(instr.X).(*Value)
		if x == nil {
			p.goPanicf("runtime error: invalid memory address or nil pointer dereference")
		}
		fr.env[instr] = &(*x).(Struct)[instr.Field]
	case *ssa.Field:
		fr.env[instr] = copyVal(fr.get(instr.X).(Struct)[instr.Field])
	case *ssa.IndexAddr:
		x := fr.get(instr.X)
		idx := fr.concInt(fr.get(instr.Index), "index")
		switch x := x.(type) {
		case Slice:
			if idx < 0 || idx >= len(x.A) {
				p.goPanicf("runtime error: index out of range [%d] with length %d", idx, len(x.A))
			}
			fr.env[instr] = &x.A[idx]
		case *Value: // *array
			if x == nil {
				p.goPanicf("runtime error: invalid memory address or nil pointer dereference")
			}
			a := (*x).(Array)
			if idx < 0 || idx >= len(a) {
				p.goPanicf("runtime error: index out of range [%d] with length %d", idx, len(a))
			}
			fr.env[instr] = &a[idx]
		default:
			panic(fmt.Sprintf("IndexAddr %T", x))
		}
	case *ssa.Index:
		x := fr.get(instr.X)
		idx := fr.concInt(fr.get(instr.Index), "index")
		switch x := x.(type) {
		case Array:
			if idx < 0 || idx >= len(x) {
				p.goPanicf("runtime error: index out of range [%d] with length %d", idx, len(x))
			}
			fr.env[instr] = copyVal(x[idx])
		case string, *SymStr:
			if idx < 0 || idx >= strLen(x) {
				p.goPanicf("runtime error: index out of range [%d] with length %d", idx, strLen(x))
			}
			fr.env[instr] = strAt(x, idx)
		default:
			panic(fmt.Sprintf("Index %T", x))
		}
	case *ssa.Lookup:
		fr.env[instr] = fr.lookup(instr)
	case *ssa.MapUpdate:
		m, _ := fr.get(instr.Map).(*Map)
		if m == nil {
			p.goPanicf("assignment to entry in nil map")
		}
		p.mapStore(m, fr.get(instr.Key), copyVal(fr.get(instr.Value)))
	case *ssa.TypeAssert:
		fr.env[instr] = p.typeAssert(instr, fr.get(instr.X).(Iface))
	case *ssa.MakeClosure:
		var bindings []Value
		for _, b := range instr.Bindings {
			bindings = append(bindings, fr.get(b))
		}
		fr.env[instr] = &Closure{Fn: instr.Fn.(*ssa.Function), Env: bindings}
	case *ssa.Phi:
		for i, pred := range instr.Block().Preds {
			if fr.prev == pred {
				fr.env[instr] = fr.get(instr.Edges[i])
				break
			}
		}
	case *ssa.Select:
		panic(unsupported("select statement"))
	default:
		panic(unsupported("instruction %T", instr))
	}
	return kNext
}

func (p *Path) panicMessage(v Value) string {
	if i, ok := v.(Iface); ok {
		if i.T == nil {
			return "panic(nil)"
		}
		switch x := i.V.(type) {
		case string:
			return x
		case *Native:
			if e, ok := x.V.(error); ok {
				return e.Error()
			}
		}
		return "panic(" + i.T.String() + ")"
	}
	return "panic"
}

func (fr *Frame) unop(instr *ssa.UnOp) Value {
	p := fr.p
	x := fr.get(instr.X)
	switch instr.Op {
	case token.ARROW:
		v, ok := p.chanRecv(x, instr.X.Type().Underlying().(*types.Chan).Elem())
		if instr.CommaOk {
			return Tuple{v, ok}
		}
		return v
	case token.MUL:
		ptr := x.(*Value)
		if ptr == nil {
			p.goPanicf("runtime error: invalid memory address or nil pointer dereference")
		}
		return copyVal(*ptr)
	}
	return p.unop(instr.Op, instr.X.Type(), x)
}

func (fr *Frame) slice(instr *ssa.Slice) Value {
	p := fr.p
	x := fr.get(instr.X)
	lo, hi, max := -1, -1, -1
	if instr.Low != nil {
		lo = fr.concInt(fr.get(instr.Low), "slice bound")
	}
	if instr.High != nil {
		hi = fr.concInt(fr.get(instr.High), "slice bound")
	}
	if instr.Max != nil {
		max = fr.concInt(fr.get(instr.Max), "slice bound")
	}
	switch x := x.(type) {
	case string, *SymStr:
		n := strLen(x)
		if lo < 0 {
			lo = 0
		}
		if hi < 0 && instr.High == nil {
			hi = n
		}
		if hi < 0 || hi > n {
			p.goPanicf("runtime error: slice bounds out of range [:%d] with length %d", hi, n)
		}
		if lo > hi {
			p.goPanicf("runtime error: slice bounds out of range [%d:%d]", lo, hi)
		}
		return strSlice(x, lo, hi)
	case Slice:
		return p.sliceOf(x.A, cap(x.A), lo, hi, max, instr, x.A == nil)
	case *Value:
		if x == nil {
			p.goPanicf("runtime error: invalid memory address or nil pointer dereference")
		}
		a := (*x).(Array)
		return p.sliceOf([]Value(a), len(a), lo, hi, max, instr, false)
	}
	panic(fmt.Sprintf("slice: %T", x))
}

func (p *Path) sliceOf(a []Value, capacity int, lo, hi, max int, instr *ssa.Slice, isNil bool) Value {
	if lo < 0 {
		lo = 0
	}
	if instr.High == nil {
		hi = len(a)
	}
	if instr.Max == nil {
		max = capacity
	}
	if max < 0 || max > capacity {
		p.goPanicf("runtime error: slice bounds out of range [::%d] with capacity %d", max, capacity)
	}
	if hi < 0 || hi > max {
		p.goPanicf("runtime error: slice bounds out of range [:%d] with capacity %d", hi, max)
	}
	if lo > hi {
		p.goPanicf("runtime error: slice bounds out of range [%d:%d]", lo, hi)
	}
	if isNil {
		return Slice{}
	}
	return Slice{A: a[:capacity][lo:hi:max]}
}

func (fr *Frame) lookup(instr *ssa.Lookup) Value {
	p := fr.p
	x := fr.get(instr.X)
	switch x := x.(type) {
	case string, *SymStr:
		idx := fr.concInt(fr.get(instr.Index), "string index")
		if idx < 0 || idx >= strLen(x) {
			p.goPanicf("runtime error: index out of range [%d] with length %d", idx, strLen(x))
		}
		return strAt(x, idx)
	case *Map:
		v, ok := p.mapLookup(x, fr.get(instr.Index), instr.X.Type().Underlying().(*types.Map))
		if instr.CommaOk {
			return Tuple{v, ok}
		}
		return v
	}
	panic(fmt.Sprintf("lookup %T", x))
}

func (p *Path) typeAssert(instr *ssa.TypeAssert, itf Iface) Value {
	var ok bool
	var v Value
	if it, isI := instr.AssertedType.Underlying().(*types.Interface); isI {
		if itf.T != nil {
			if itf.T == nativeErrorType {
				ok = it.NumMethods() == 0 || (it.NumMethods() == 1 && it.Method(0).Name() == "Error")
			} else {
				ok = types.Implements(itf.T, it)
			}
		}
		v = itf
		if !ok {
			v = Iface{}
		}
	} else {
		ok = itf.T != nil && types.Identical(itf.T, instr.AssertedType)
		if ok {
			v = itf.V
		} else {
			v = zero(instr.AssertedType)
		}
	}
	if instr.CommaOk {
		return Tuple{v, ok}
	}
	if !ok {
		p.goPanicf("interface conversion: interface is %v, not %v", itf.T, instr.AssertedType)
	}
	return v
}

func (fr *Frame) prepareCall(call *ssa.CallCommon) (fn Value, args []Value) {
	p := fr.p
	v := fr.get(call.Value)
	if call.Method == nil {
		fn = v
	} else {
		recv := v.(Iface)
		if recv.T == nil {
			p.goPanicf("runtime error: invalid memory address or nil pointer dereference (method call on nil interface)")
		}
		if recv.T == nativeErrorType || recv.T == runtimeErrorType {
			name := call.Method.Name()
			rv := recv
			fn = &primFunc{name: "native." + name, fn: func(p *Path, args []Value) Value {
				if name == "Error" {
					switch x := rv.V.(type) {
					case string:
						return x
					case *errVal:
						return x.msg
					case *Native:
						return x.V.(error).Error()
					}
				}
				panic(unsupported("method %s on native value", name))
			}}
			for _, a := range call.Args {
				args = append(args, fr.get(a))
			}
			return
		}
		f := p.w.eng.lookupMethod(recv.T, call.Method)
		if f == nil {
			panic(unsupported("method %s not found for %v", call.Method.Name(), recv.T))
		}
		fn = f
		args = append(args, recv.V)
	}
	for _, a := range call.Args {
		args = append(args, fr.get(a))
	}
	return
}

// storeInto assigns v to the cell, field by field for aggregates so that
// pointers to fields / elements taken earlier stay valid (as in Go).
func storeInto(addr *Value, v Value) {
	switch rhs := v.(type) {
	case Struct:
		if lhs, ok := (*addr).(Struct); ok && len(lhs) == len(rhs) {
			for i := range lhs {
				storeInto(&lhs[i], rhs[i])
			}
			return
		}
	case Array:
		if lhs, ok := (*addr).(Array); ok && len(lhs) == len(rhs) {
			for i := range lhs {
				storeInto(&lhs[i], rhs[i])
			}
			return
		}
	}
	*addr = copyVal(v)
}

type primFunc struct {
	name string
	fn   func(p *Path, args []Value) Value
}

// ---- builtins ---------------------------------------------------------------

func (p *Path) callBuiltin(fn *ssa.Builtin, args []Value, site ssa.Instruction) Value {
	switch fn.Name() {
	case "append":
		if len(args) == 1 {
			return args[0]
		}
		dst := args[0].(Slice)
		var add []Value
		switch s := args[1].(type) {
		case Slice:
			add = s.A
		case string, *SymStr:
			add = strBytes(s)
		default:
			panic(fmt.Sprintf("append %T", args[1]))
		}
		if len(add) == 0 {
			return dst
		}
		n := len(dst.A)
		need := n + len(add)
		if need <= cap(dst.A) {
			out := dst.A[:need]
			for i, v := range add {
				out[n+i] = copyVal(v)
			}
			return Slice{A: out}
		}
		nc := growCap(cap(dst.A), need)
		out := make([]Value, need, nc)
		copy(out, dst.A)
		for i, v := range add {
			out[n+i] = copyVal(v)
		}
		return Slice{A: out}
	case "copy":
		dst := args[0].(Slice)
		var src []Value
		switch s := args[1].(type) {
		case Slice:
			src = s.A
		case string, *SymStr:
			src = strBytes(s)
		}
		n := len(dst.A)
		if len(src) < n {
			n = len(src)
		}
		tmp := make([]Value, n)
		for i := 0; i < n; i++ {
			tmp[i] = copyVal(src[i])
		}
		copy(dst.A, tmp)
		return int64(n)
	case "close":
		p.chanClose(args[0])
		return nil
	case "delete":
		m, _ := args[0].(*Map)
		if m != nil {
			p.mapDelete(m, args[1])
		}
		return nil
	case "print", "println":
		return nil
	case "len":
		switch x := args[0].(type) {
		case string, *SymStr:
			return int64(strLen(x))
		case Array:
			return int64(len(x))
		case *Value:
			if x == nil {
				return int64(0)
			}
			return int64(len((*x).(Array)))
		case Slice:
			return int64(len(x.A))
		case *Map:
			return int64(x.Len())
		case *Chan:
			if x == nil {
				return int64(0)
			}
			return int64(len(x.buf))
		}
		panic(fmt.Sprintf("len: %T", args[0]))
	case "cap":
		switch x := args[0].(type) {
		case Array:
			return int64(len(x))
		case *Value:
			return int64(len((*x).(Array)))
		case Slice:
			return int64(cap(x.A))
		case *Chan:
			if x == nil {
				return int64(0)
			}
			return int64(x.capacity)
		}
		panic(fmt.Sprintf("cap: %T", args[0]))
	case "panic":
		panic(goPanic{v: args[0], msg: p.panicMessage(args[0])})
	case "recover":
		if p.cur != nil {
			return p.doRecover(p.cur.caller)
		}
		return Iface{}
	case "min", "max":
		panic(unsupported("builtin %s", fn.Name()))
	}
	panic(unsupported("builtin %s", fn.Name()))
}

// growCap follows runtime.growslice's policy without size-class rounding.
func growCap(old, need int) int {
	nc := old
	doublecap := nc + nc
	if need > doublecap {
		return need
	}
	const threshold = 256
	if old < threshold {
		if doublecap == 0 {
			return need
		}
		return doublecap
	}
	for nc < need {
		nc += (nc + 3*threshold) >> 2
	}
	return nc
}

// ---- range ------------------------------------------------------------------

type iter interface {
	next(p *Path) Tuple
}

type stringIter struct {
	s Value
	i int
}

func (it *stringIter) next(p *Path) Tuple {
	n := strLen(it.s)
	if it.i >= n {
		return Tuple{false, int64(0), int64(0)}
	}
	if s, ok := it.s.(string); ok {
		// concrete: real UTF-8 decoding
		for j, r := range s[it.i:] {
			_ = j
			idx := it.i
			it.i += len(string(r))
			if r == 0xFFFD {
				it.i = idx + 1
			}
			return Tuple{true, int64(idx), int64(r)}
		}
	}
	idx := it.i
	r, size := p.decodeRuneAt(it.s, idx)
	it.i += size
	return Tuple{true, int64(idx), r}
}

// byteIn: lo <= b <= hi for a (possibly symbolic) byte, as a path decision.
func (p *Path) byteIn(b Value, lo, hi int64) bool {
	switch x := b.(type) {
	case int64:
		return x >= lo && x <= hi
	case *Term:
		tt := p.tt()
		return p.Decide(tt.And(tt.Cmp(OpUle, tt.Const(BV(8), uint64(lo)), x), tt.Cmp(OpUle, x, tt.Const(BV(8), uint64(hi)))))
	}
	panic("byteIn")
}

// decodeRuneAt follows unicode/utf8.DecodeRuneInString on a string with symbolic
// bytes: the shape of the encoding is decided on the path, the rune is a term.
func (p *Path) decodeRuneAt(s Value, i int) (Value, int) {
	n := strLen(s)
	b0 := strAt(s, i)
	if p.byteIn(b0, 0, 0x7F) {
		if c, ok := b0.(int64); ok {
			return c, 1
		}
		return p.tt().Zext(b0.(*Term), 32), 1
	}
	const runeError = int64(0xFFFD)
	cont := func(j int, lo, hi int64) bool { return j < n && p.byteIn(strAt(s, j), lo, hi) }
	tt := p.tt()
	bits := func(b Value, mask uint64, shift uint) *Term {
		t := tt.Zext(p.byteTerm(b), 32)
		t = tt.Bin(OpBAnd, t, tt.Const(BV(32), mask))
		return tt.Bin(OpShl, t, tt.Const(BV(32), uint64(shift)))
	}
	mk := func(parts ...*Term) Value {
		r := parts[0]
		for _, q := range parts[1:] {
			r = tt.Bin(OpBOr, r, q)
		}
		return termOrInt(r, intInfo{32, true})
	}
	switch {
	case p.byteIn(b0, 0xC2, 0xDF):
		if cont(i+1, 0x80, 0xBF) {
			return mk(bits(b0, 0x1F, 6), bits(strAt(s, i+1), 0x3F, 0)), 2
		}
	case p.byteIn(b0, 0xE0, 0xEF):
		lo, hi := int64(0x80), int64(0xBF)
		if p.byteIn(b0, 0xE0, 0xE0) {
			lo = 0xA0
		} else if p.byteIn(b0, 0xED, 0xED) {
			hi = 0x9F
		}
		if cont(i+1, lo, hi) && cont(i+2, 0x80, 0xBF) {
			return mk(bits(b0, 0x0F, 12), bits(strAt(s, i+1), 0x3F, 6), bits(strAt(s, i+2), 0x3F, 0)), 3
		}
	case p.byteIn(b0, 0xF0, 0xF4):
		lo, hi := int64(0x80), int64(0xBF)
		if p.byteIn(b0, 0xF0, 0xF0) {
			lo = 0x90
		} else if p.byteIn(b0, 0xF4, 0xF4) {
			hi = 0x8F
		}
		if cont(i+1, lo, hi) && cont(i+2, 0x80, 0xBF) && cont(i+3, 0x80, 0xBF) {
			return mk(bits(b0, 0x07, 18), bits(strAt(s, i+1), 0x3F, 12), bits(strAt(s, i+2), 0x3F, 6), bits(strAt(s, i+3), 0x3F, 0)), 4
		}
	}
	return runeError, 1
}

func (p *Path) runeOfByteKeepConcrete(b Value) Value {
	return p.runeOfByte(b, "range over string")
}

// natives whose symbolic string operands are enumerated (small domains only: Concretize refuses more than 64 values per byte)
var concretizeForNative = map[string]bool{"time.Parse": true}

type mapIter struct {
	es []*mapEntry
	i  int
}

func (it *mapIter) next(p *Path) Tuple {
	for it.i < len(it.es) {
		e := it.es[it.i]
		it.i++
		if e.Del {
			continue
		}
		return Tuple{true, e.K, copyVal(e.V)}
	}
	return Tuple{false, nil, nil}
}

func (p *Path) rangeIter(x Value, t types.Type) iter {
	switch x := x.(type) {
	case string, *SymStr:
		return &stringIter{s: x}
	case *Map:
		es := x.live()
		if x != nil && x.Observe && len(es) > 1 {
			es = p.permute(es)
		} else if len(es) > 1 {
			// the order of this iteration is a free choice of the runtime: insertion order on the first
			// pass, reversed on the second, reversed on every second iteration of the path on the third
			p.mapRanges++
			if p.mapOrderRev && (!p.mapOrderAlt || p.mapRanges%2 == 0) {
				r := make([]*mapEntry, len(es))
				for i, e := range es {
					r[len(es)-1-i] = e
				}
				es = r
			}
		}
		return &mapIter{es: es}
	}
	panic(fmt.Sprintf("range over %T", x))
}

// permute forks over all orders of the entries (observable maps only).
func (p *Path) permute(es []*mapEntry) []*mapEntry {
	rest := append([]*mapEntry(nil), es...)
	var out []*mapEntry
	for len(rest) > 0 {
		k := p.Choose(len(rest))
		out = append(out, rest[k])
		rest = append(rest[:k], rest[k+1:]...)
	}
	return out
}
