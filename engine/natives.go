package main

// Native calls: when every argument is concrete, the real standard-library /
// dependency function is executed (it is the real implementation, not a model).

import (
	"encoding/hex"
	"fmt"
	"go/types"
	"math"
	"reflect"
	"regexp"
	"sort"
	"strconv"
	"strings"
	"time"
	"unicode"
	"unicode/utf8"

	"golang.org/x/tools/go/ssa"
)

var natives = map[string]reflect.Value{}

func native(name string, f interface{}) { natives[name] = reflect.ValueOf(f) }

func init() {
	native("strings.ToUpper", strings.ToUpper)
	native("strings.ToLower", strings.ToLower)
	native("strings.Split", strings.Split)
	native("strings.SplitN", strings.SplitN)
	native("strings.SplitAfter", strings.SplitAfter)
	native("strings.Join", strings.Join)
	native("strings.TrimSpace", strings.TrimSpace)
	native("strings.TrimLeft", strings.TrimLeft)
	native("strings.TrimRight", strings.TrimRight)
	native("strings.Trim", strings.Trim)
	native("strings.TrimPrefix", strings.TrimPrefix)
	native("strings.TrimSuffix", strings.TrimSuffix)
	native("strings.Contains", strings.Contains)
	native("strings.ContainsAny", strings.ContainsAny)
	native("strings.ContainsRune", strings.ContainsRune)
	native("strings.Index", strings.Index)
	native("strings.IndexByte", strings.IndexByte)
	native("strings.LastIndex", strings.LastIndex)
	native("strings.Count", strings.Count)
	native("strings.ReplaceAll", strings.ReplaceAll)
	native("strings.Replace", strings.Replace)
	native("strings.Repeat", strings.Repeat)
	native("strings.HasPrefix", strings.HasPrefix)
	native("strings.HasSuffix", strings.HasSuffix)
	native("strings.Fields", strings.Fields)
	native("strings.EqualFold", strings.EqualFold)
	native("strings.Title", strings.Title)
	native("strconv.Itoa", strconv.Itoa)
	native("strconv.Atoi", strconv.Atoi)
	native("strconv.Quote", strconv.Quote)
	native("strconv.FormatInt", strconv.FormatInt)
	native("regexp.MustCompile", regexp.MustCompile)
	native("regexp.Compile", regexp.Compile)
	native("regexp.MatchString", regexp.MatchString)
	native("(*regexp.Regexp).FindAllStringIndex", (*regexp.Regexp).FindAllStringIndex)
	native("(*regexp.Regexp).FindString", (*regexp.Regexp).FindString)
	native("(*regexp.Regexp).FindStringIndex", (*regexp.Regexp).FindStringIndex)
	native("(*regexp.Regexp).Find", (*regexp.Regexp).Find)
	native("(*regexp.Regexp).Match", (*regexp.Regexp).Match)
	native("(*regexp.Regexp).MatchString", (*regexp.Regexp).MatchString)
	native("(*regexp.Regexp).ReplaceAllString", (*regexp.Regexp).ReplaceAllString)
	native("(*regexp.Regexp).ReplaceAll", (*regexp.Regexp).ReplaceAll)
	native("(*regexp.Regexp).String", (*regexp.Regexp).String)
	native("unicode.IsSpace", unicode.IsSpace)
	native("unicode.IsUpper", unicode.IsUpper)
	native("unicode.IsLower", unicode.IsLower)
	native("unicode.IsLetter", unicode.IsLetter)
	native("unicode.IsDigit", unicode.IsDigit)
	native("unicode.ToUpper", unicode.ToUpper)
	native("unicode.ToLower", unicode.ToLower)
	native("unicode/utf8.RuneCountInString", utf8.RuneCountInString)
	native("unicode/utf8.RuneLen", utf8.RuneLen)
	native("unicode/utf8.ValidString", utf8.ValidString)
	native("encoding/hex.EncodeToString", hex.EncodeToString)
	native("math.Log", math.Log)
	native("math.Log10", math.Log10)
	native("math.Sqrt", math.Sqrt)
	native("math.Pow", math.Pow)
	native("math.Abs", math.Abs)
	native("math.Floor", math.Floor)
	native("math.IsNaN", math.IsNaN)
	native("sort.Strings", sort.Strings)
	native("sort.Ints", sort.Ints)
	native("sort.SearchInts", sort.SearchInts)
	native("fmt.Sprint", fmt.Sprint)
	native("fmt.Sprintf", fmt.Sprintf)
	native("fmt.Sprintln", fmt.Sprintln)
	native("fmt.Errorf", fmt.Errorf)
	native("time.Parse", time.Parse)
}

var errorIface = reflect.TypeOf((*error)(nil)).Elem()

func toGo(v Value, t reflect.Type) (rv reflect.Value, ok bool) {
	defer func() {
		if r := recover(); r != nil {
			ok = false
		}
	}()
	switch t.Kind() {
	case reflect.String:
		s, ok := v.(string)
		if !ok {
			return rv, false
		}
		return reflect.ValueOf(s).Convert(t), true
	case reflect.Int, reflect.Int8, reflect.Int16, reflect.Int32, reflect.Int64:
		i, ok := v.(int64)
		if !ok {
			return rv, false
		}
		return reflect.ValueOf(i).Convert(t), true
	case reflect.Uint, reflect.Uint8, reflect.Uint16, reflect.Uint32, reflect.Uint64, reflect.Uintptr:
		i, ok := v.(int64)
		if !ok {
			return rv, false
		}
		return reflect.ValueOf(uint64(i)).Convert(t), true
	case reflect.Bool:
		b, ok := v.(bool)
		if !ok {
			return rv, false
		}
		return reflect.ValueOf(b), true
	case reflect.Float64, reflect.Float32:
		f, ok := v.(float64)
		if !ok {
			return rv, false
		}
		return reflect.ValueOf(f).Convert(t), true
	case reflect.Slice:
		sl, ok := v.(Slice)
		if !ok {
			return rv, false
		}
		if sl.A == nil {
			return reflect.Zero(t), true
		}
		out := reflect.MakeSlice(t, len(sl.A), len(sl.A))
		for i, e := range sl.A {
			ev, ok := toGo(e, t.Elem())
			if !ok {
				return rv, false
			}
			out.Index(i).Set(ev)
		}
		return out, true
	case reflect.Ptr:
		if n, ok := v.(*Native); ok {
			return reflect.ValueOf(n.V), true
		}
		return rv, false
	case reflect.Interface:
		switch x := v.(type) {
		case Iface:
			if x.T == nil {
				return reflect.Zero(t), true
			}
			if n, ok := x.V.(*Native); ok {
				return reflect.ValueOf(n.V), true
			}
			switch c := x.V.(type) {
			case string:
				return reflect.ValueOf(c), true
			case int64:
				return reflect.ValueOf(int(c)), true
			case bool:
				return reflect.ValueOf(c), true
			case float64:
				return reflect.ValueOf(c), true
			}
		case *Native:
			return reflect.ValueOf(x.V), true
		}
		return rv, false
	}
	return rv, false
}

func fromGo(rv reflect.Value) Value {
	t := rv.Type()
	switch t.Kind() {
	case reflect.String:
		return rv.String()
	case reflect.Int, reflect.Int8, reflect.Int16, reflect.Int32, reflect.Int64:
		return rv.Int()
	case reflect.Uint, reflect.Uint8, reflect.Uint16, reflect.Uint32, reflect.Uint64, reflect.Uintptr:
		return int64(rv.Uint())
	case reflect.Bool:
		return rv.Bool()
	case reflect.Float64, reflect.Float32:
		return rv.Float()
	case reflect.Slice:
		if rv.IsNil() {
			return Slice{}
		}
		out := make([]Value, rv.Len())
		for i := range out {
			out[i] = fromGo(rv.Index(i))
		}
		return Slice{A: out}
	case reflect.Interface:
		if rv.IsNil() {
			return Iface{}
		}
		if t.Implements(errorIface) {
			return Iface{T: nativeErrorType, V: &Native{V: rv.Interface()}}
		}
		return Iface{T: nativeErrorType, V: &Native{V: rv.Interface()}}
	case reflect.Ptr:
		if rv.IsNil() {
			return (*Native)(nil)
		}
		return &Native{V: rv.Interface()}
	}
	return &Native{V: rv.Interface()}
}

// callNative runs the real function if all arguments convert to Go values.
func (p *Path) callNative(name string, nf reflect.Value, fn *ssa.Function, args []Value) (res Value, ok bool) {
	ft := nf.Type()
	var in []reflect.Value
	if ft.IsVariadic() {
		// ssa passes the variadic tail as a slice
		for i := 0; i < ft.NumIn()-1; i++ {
			v, ok := toGo(args[i], ft.In(i))
			if !ok {
				return nil, false
			}
			in = append(in, v)
		}
		v, ok := toGo(args[ft.NumIn()-1], ft.In(ft.NumIn()-1))
		if !ok {
			return nil, false
		}
		for i := 0; i < v.Len(); i++ {
			in = append(in, v.Index(i))
		}
	} else {
		if len(args) != ft.NumIn() {
			return nil, false
		}
		for i := range args {
			v, ok := toGo(args[i], ft.In(i))
			if !ok {
				return nil, false
			}
			in = append(in, v)
		}
	}
	var out []reflect.Value
	func() {
		defer func() {
			if r := recover(); r != nil {
				p.goPanicf("%v", r)
			}
		}()
		out = nf.Call(in)
	}()
	p.nativesHit[name] = true
	// in-place natives (sort.Strings): copy back slices
	if name == "sort.Strings" || name == "sort.Ints" {
		sl := args[0].(Slice)
		for i := range sl.A {
			sl.A[i] = fromGo(in[0].Index(i))
		}
	}
	switch len(out) {
	case 0:
		return nil, true
	case 1:
		return fromGo(out[0]), true
	}
	tu := make(Tuple, len(out))
	for i, o := range out {
		tu[i] = fromGo(o)
	}
	return tu, true
}

var _ = types.Typ
