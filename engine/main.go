package main

// polysym: driver. polysym run <property> <quick|thorough>

import (
	"crypto/sha1"
	"encoding/json"
	"fmt"
	"os"
	"os/exec"
	"path/filepath"
	"runtime"
	"sort"
	"strconv"
	"strings"
	"sync"
	"time"

	"golang.org/x/tools/go/ssa"
)

type Worker struct {
	noModelCache bool
	eng   *Engine
	tt    *TermTable
	sv    *Solver
	id    int
	paths int
}

func (w *Worker) noteUnknown(what string) {
	w.eng.mu.Lock()
	w.eng.unknowns[what]++
	w.eng.mu.Unlock()
}

func (w *Worker) noteSolverError(e string) {
	w.eng.mu.Lock()
	w.eng.solverErrs[e]++
	w.eng.mu.Unlock()
}

type PathResult struct {
	status   string // ok | assumed | unsupported | budget | violation-end | engine-error
	msg      string
	alts     [][]int
	viols    []Violation
	steps    int
	mapRanges int
	queries  int
	out      []string
	covers   map[string]bool
	seen     map[string]bool
	asserts  map[string]bool
	fns      map[*ssa.Function]bool
	models   map[string]bool
	natives  map[string]bool
	stubs    map[string]bool
	sample   []Draw
	unknown  bool
	witnessed map[string]bool
	schedPts int
	nvars    int
	tableDecisions int
	choicePoints   int
}

func (w *Worker) newPath(h *ssa.Function, prefix []int) *Path {
	e := w.eng
	return &Path{w: w, harness: h.Name(), harnessRel: e.relDirOf(h), prefix: prefix, dom: map[*Var]*bitset{}, ent: map[*Var]bool{},
		maxSteps: e.maxSteps, maxDepth: e.maxDepth, globals: map[*ssa.Global]*Value{}, initDone: map[*ssa.Package]bool{},
		side: map[*Value]interface{}{}, asserts: map[string]bool{}, covers: map[string]bool{}, coverSeen: map[string]bool{},
		witnessed: map[string]bool{}, ufApps: map[string][]*Term{}, modelsHit: map[string]bool{}, fnsHit: map[*ssa.Function]bool{},
		nativesHit: map[string]bool{}, stubsHit: map[string]bool{}, preds: map[string]*Term{}, mapOrderRev: e.mapOrderRev, mapOrderAlt: e.mapOrderAlt, simpMemo: map[int]*Term{}, simpVersion: -1}
}

func (w *Worker) runPath(h *ssa.Function, prefix []int, wantSample bool) (res *PathResult) {
	// periodic reset of the term table / solver to bound memory
	w.paths++
	if len(w.tt.all) > 400000 {
		w.sv.Close()
		w.tt = NewTermTable()
		w.sv = NewSolver(w.tt, w.eng.timeoutMs, "")
	}
	p := w.newPath(h, prefix)
	res = &PathResult{status: "ok"}
	p.epoch = w.sv.epoch
	w.sv.Push()
	defer func() {
		r := recover()
		if p.sched != nil {
			p.sched.killAll()
		}
		if r != nil {
			switch a := r.(type) {
			case pathAbort:
				switch a.kind {
				case abAssumed:
					res.status = "assumed"
				case abUnsupported:
					res.status = "unsupported"
				case abBudget:
					res.status = "budget"
					if p.termStep != 0 {
						// declared termination obligation: exceeding the budget is the violation
						func() {
							defer func() { recover() }()
							p.concurrencyViolation("nontermination", a.msg)
						}()
						res.status = "violation-end"
					}
				case abViolationEnd:
					res.status = "violation-end"
				}
				res.msg = a.msg
			case goPanic:
				func() {
					defer func() {
						if r2 := recover(); r2 != nil {
							res.status = "engine-error"
							res.msg = fmt.Sprint(r2)
						}
					}()
					p.Panicked(a)
					res.status = "violation-end"
					res.msg = "panic: " + a.msg
				}()
			case engineError:
				res.status = "engine-error"
				res.msg = a.msg
			default:
				buf := make([]byte, 8192)
				n := runtime.Stack(buf, false)
				res.status = "engine-error"
				res.msg = fmt.Sprintf("%v\n%s", r, buf[:n])
			}
		}
		if wantSample && res.status == "ok" {
			func() {
				defer func() { recover() }()
				_, m := p.queryModel()
				res.sample = p.fillDraws(m)
			}()
		}
		// drain solver state of this path
		for w.sv.depth > 0 {
			w.sv.Pop()
		}
		res.alts = p.alts
		res.viols = p.viols
		res.steps = p.steps
		res.mapRanges = p.mapRanges
		res.queries = p.nQueries
		res.out = p.out
		res.covers = p.covers
		res.seen = p.coverSeen
		res.asserts = p.asserts
		res.fns = p.fnsHit
		res.models = p.modelsHit
		res.natives = p.nativesHit
		res.stubs = p.stubsHit
		res.unknown = p.unknown
		res.tableDecisions = p.nTable
		res.choicePoints = p.pos
		res.witnessed = p.witnessed
		res.nvars = len(p.vars)
		if p.sched != nil {
			res.schedPts = p.sched.points
		}
	}()
	// package initialisers of the loaded poly packages, fresh on every path
	for _, sp := range w.eng.tpkgs {
		if init := sp.Func("init"); init != nil {
			p.callSSA(init, nil, nil)
		}
	}
	p.steps = 0
	p.call(h, nil, nil)
	if p.sched != nil && p.sched.abort != nil {
		panic(p.sched.abort)
	}
	// every completed path: the solver confirms that the path condition (including every
	// decision taken from domain tables) is satisfiable - guards against vacuous paths
	if len(p.vars) > 0 && len(p.vars) <= 3000 && len(prefix) >= 0 && !p.finalChecked {
		p.finalChecked = true
		switch p.query() {
		case Unsat:
			panic(engineError{"path condition unsatisfiable at the end of a path that the engine considered feasible (domain-table / solver disagreement)"})
		case Unknown:
			p.unknown = true
			p.w.noteUnknown("final satisfiability of a path condition")
		}
	}
	return res
}

// ---- exploration ------------------------------------------------------------

type HarnessStats struct {
	Name        string         `json:"harness"`
	Paths       int            `json:"paths"`
	Ok          int            `json:"paths_ok"`
	Assumed     int            `json:"paths_assumed_away"`
	Unsupported map[string]int `json:"unsupported,omitempty"`
	Budget      int            `json:"paths_budget_exceeded"`
	EngineErr   map[string]int `json:"engine_errors,omitempty"`
	Steps       int64          `json:"ssa_instructions"`
	MapRanges   int64          `json:"unobserved_map_iterations"`
	Queries     int            `json:"queries"`
	TableDecisions int         `json:"decisions_by_domain_tables"`
	ChoicePoints   int64       `json:"decision_points_on_paths"`
	Samples     [][]Draw       `json:"-"`
	MaxVars     int            `json:"symbolic_vars_max"`
	SchedPoints int            `json:"sched_points_max,omitempty"`
	WallS       float64        `json:"wall_s"`
}

type RunState struct {
	eng      *Engine
	mu       sync.Mutex
	stats    map[string]*HarnessStats
	viols    []Violation
	covers   map[string]bool
	seen     map[string]bool
	asserts  map[string]bool
	fns      map[string]bool
	models   map[string]bool
	natives  map[string]bool
	stubs    map[string]bool
	witnessed map[string]bool
	unknown  bool
	sat, unsat, unk int
	solverS  float64
	maxPaths int
	truncated map[string]bool
	stoppedEarly map[string]bool
}

func (rs *RunState) explore(h *ssa.Function, nworkers int) {
	st := &HarnessStats{Name: h.Name(), Unsupported: map[string]int{}, EngineErr: map[string]int{}}
	rs.stats[h.Name()] = st
	t0 := time.Now()
	var mu sync.Mutex
	cond := sync.NewCond(&mu)
	stack := [][]int{{}}
	inflight := 0
	stopAt := 0
	done := false
	var wg sync.WaitGroup
	if os.Getenv("POLYSYM_PROGRESS") != "" {
		stop := make(chan struct{})
		defer close(stop)
		go func() {
			for {
				select {
				case <-stop:
					return
				case <-time.After(10 * time.Second):
					mu.Lock()
					fmt.Fprintf(os.Stderr, "    [%s] %d paths done, %d on stack, %d in flight, %.0fs\n", h.Name(), st.Paths, len(stack), inflight, time.Since(t0).Seconds())
					mu.Unlock()
				}
			}
		}()
	}
	for i := 0; i < nworkers; i++ {
		wg.Add(1)
		go func(id int) {
			defer wg.Done()
			tt := NewTermTable()
			w := &Worker{eng: rs.eng, tt: tt, id: id}
			w.sv = NewSolver(tt, rs.eng.timeoutMs, os.Getenv("POLYSYM_SMTLOG"))
			defer func() {
				rs.mu.Lock()
				rs.sat += w.sv.NSat
				rs.unsat += w.sv.NUnsat
				rs.unk += w.sv.NUnknown
				rs.solverS += w.sv.Time.Seconds()
				rs.mu.Unlock()
				w.sv.Close()
			}()
			for {
				mu.Lock()
				for len(stack) == 0 && inflight > 0 && !done {
					cond.Wait()
				}
				if done || (len(stack) == 0 && inflight == 0) {
					done = true
					cond.Broadcast()
					mu.Unlock()
					return
				}
				prefix := stack[len(stack)-1]
				stack = stack[:len(stack)-1]
				inflight++
				wantSample := len(st.Samples) < 3 && st.Paths%7 == 0
				mu.Unlock()

				res := w.runPath(h, prefix, wantSample)

				if os.Getenv("POLYSYM_DUMP_PREFIX") != "" {
					fmt.Fprintf(os.Stderr, "PREFIX %v %s\n", prefix, res.status)
				}
				mu.Lock()
				inflight--
				st.Paths++
				st.Steps += int64(res.steps)
				st.MapRanges += int64(res.mapRanges)
				st.Queries += res.queries
				st.TableDecisions += res.tableDecisions
				st.ChoicePoints += int64(res.choicePoints)
				if res.nvars > st.MaxVars {
					st.MaxVars = res.nvars
				}
				if res.schedPts > st.SchedPoints {
					st.SchedPoints = res.schedPts
				}
				switch res.status {
				case "ok", "violation-end":
					st.Ok++
				case "assumed":
					st.Assumed++
				case "unsupported":
					st.Unsupported[res.msg]++
				case "budget":
					st.Budget++
				case "engine-error":
					st.EngineErr[res.msg]++
				}
				if res.sample != nil && len(st.Samples) < 3 {
					st.Samples = append(st.Samples, res.sample)
				}
				// once a new violation has been seen, a few hundred more paths are explored
				// (to collect other clauses) and the harness stops: the verdict is VIOLATION anyway
				for _, v := range res.viols {
					if v.Finding == "" && stopAt == 0 {
						stopAt = st.Paths + 400
					}
				}
				if stopAt > 0 && st.Paths >= stopAt && os.Getenv("POLYSYM_NO_EARLY_STOP") == "" {
					stack = nil
					res.alts = nil
					rs.stoppedEarly[h.Name()] = true
				}
				if st.Paths >= rs.maxPaths {
					if len(stack) > 0 || len(res.alts) > 0 {
						rs.truncated[h.Name()] = true
					}
					stack = nil
					res.alts = nil
				}
				stack = append(stack, res.alts...)
				cond.Broadcast()
				mu.Unlock()

				rs.mu.Lock()
				rs.viols = append(rs.viols, res.viols...)
				for k := range res.covers {
					rs.covers[k] = true
				}
				for k := range res.seen {
					rs.seen[k] = true
				}
				for k := range res.asserts {
					rs.asserts[h.Name()+":"+k] = true
				}
				for f := range res.fns {
					rs.fns[f.String()] = true
				}
				for k := range res.models {
					rs.models[k] = true
				}
				for k := range res.natives {
					rs.natives[k] = true
				}
				for k := range res.stubs {
					rs.stubs[k] = true
				}
				for k := range res.witnessed {
					rs.witnessed[k] = true
				}
				if res.unknown {
					rs.unknown = true
				}
				rs.mu.Unlock()
				rs.eng.mu.Lock()
				for k := range res.seen {
					rs.eng.coverSeen[k] = true
				}
				rs.eng.mu.Unlock()
			}
		}(i)
	}
	wg.Wait()
	st.WallS = time.Since(t0).Seconds()
}

// ---- native side: selftests and replay ------------------------------------------

func nativeTestSource(pkg string, fns []string) []byte {
	var sb strings.Builder
	sb.WriteString("//go:build verif_native\n\npackage " + pkg + "\n\n")
	sb.WriteString(`import (
	"fmt"
	"os"
	"sort"
	"strings"
	"testing"
	"time"
)

var vHarnesses = map[string]func(){
`)
	for _, f := range fns {
		fmt.Fprintf(&sb, "\t%q: %s,\n", f, f)
	}
	sb.WriteString(`}

func vRunOne(name string, deadline time.Duration) (status, msg string) {
	f := vHarnesses[name]
	if f == nil {
		return "mismatch", "no such harness " + name
	}
	type res struct{ status, msg string }
	ch := make(chan res, 1)
	go func() {
		defer func() {
			if r := recover(); r != nil {
				if _, ok := r.(vAssumeFailed); ok {
					ch <- res{"assume-failed", ""}
					return
				}
				s := fmt.Sprint(r)
				if strings.HasPrefix(s, "replay mismatch") {
					ch <- res{"mismatch", s}
					return
				}
				ch <- res{"panic", s}
				return
			}
			ch <- res{"ok", ""}
		}()
		f()
	}()
	select {
	case r := <-ch:
		return r.status, r.msg
	case <-time.After(deadline):
		return "timeout", ""
	}
}

func TestVerifReplay(t *testing.T) {
	if os.Getenv("VERIF_MODE") == "selftest" {
		var names []string
		for n := range vHarnesses {
			if strings.HasPrefix(n, "Selftest_") {
				names = append(names, n)
			}
		}
		sort.Strings(names)
		for _, n := range names {
			vState.selftest = true
			vState.out = nil
			st, msg := vRunOne(n, 60*time.Second)
			fmt.Printf("SELFTEST-BEGIN %s\n", n)
			for _, l := range vState.out {
				fmt.Printf("SELFTEST-OUT %q\n", l)
			}
			fmt.Printf("SELFTEST-END %s status=%s msg=%q\n", n, st, msg)
		}
		return
	}
	for _, file := range strings.Split(os.Getenv("VERIF_REPLAY"), ":") {
		if file == "" {
			continue
		}
		vLoadReplay(file)
		vState.selftest = false
		tries := 1
		for _, d := range vState.file.Draws {
			if d.Dom == "rand.Intn" {
				tries = 3000 // outcome depends on math/rand: statistical replay
			}
		}
		if vState.file.Sched > 0 && tries < 1000 {
			tries = 1000 // outcome depends on the goroutine schedule: repeated natively
		}
		if vState.file.MapIters > 0 && tries < 300 {
			tries = 300 // the path iterates a map: natively the order is drawn afresh on every run
		}
		var st, msg string
		for try := 0; try < tries; try++ {
			vState.pos = 0
			vState.failed = nil
			vState.seed = try
			st, msg = vRunOne(vState.file.Harness, 5*time.Second)
			if st == "ok" && len(vState.failed) > 0 {
				st = "fail"
			}
			if st != "ok" {
				break
			}
		}
		fmt.Printf("REPLAY-RESULT file=%s status=%s clauses=%q msg=%q\n", file, st, strings.Join(vState.failed, ","), msg)
	}
}
`)
	return []byte(sb.String())
}

// nativeRun runs `go test` on one package with the native overlay.
func (e *Engine) nativeRun(rel string, fns []string, env []string) (string, error) {
	tmp, err := os.MkdirTemp("", "polysym-native-*")
	if err != nil {
		return "", err
	}
	defer os.RemoveAll(tmp)
	pkg := pkgNameOf(rel)
	repl := map[string]string{}
	for _, f := range e.harnessFiles[rel] {
		repl[filepath.Join(repoDir, rel, filepath.Base(f))] = f
	}
	shim := filepath.Join(tmp, "shim.go")
	os.WriteFile(shim, shimSource("native", pkg), 0644)
	repl[filepath.Join(repoDir, rel, "zz_verif_shim.go")] = shim
	tf := filepath.Join(tmp, "replay_test.go")
	os.WriteFile(tf, nativeTestSource(pkg, fns), 0644)
	repl[filepath.Join(repoDir, rel, "zz_verif_replay_test.go")] = tf
	ov, _ := json.Marshal(map[string]interface{}{"Replace": repl})
	ovf := filepath.Join(tmp, "overlay.json")
	os.WriteFile(ovf, ov, 0644)
	target := "./" + rel
	cmd := exec.Command("go", "test", "-vet=off", "-count=1", "-timeout", "600s", "-overlay", ovf, "-tags", "verif_native", "-run", "^TestVerifReplay$", "-v", target)
	cmd.Dir = repoDir
	cmd.Env = append(os.Environ(), "GOFLAGS=-mod=mod", "GOPROXY=off", "GOSUMDB=off", "GOTOOLCHAIN=local")
	cmd.Env = append(cmd.Env, env...)
	out, err := cmd.CombinedOutput()
	return string(out), err
}

func parseSelftestOutput(out string) map[string][]string {
	res := map[string][]string{}
	var cur string
	for _, l := range strings.Split(out, "\n") {
		l = strings.TrimSpace(l)
		switch {
		case strings.HasPrefix(l, "SELFTEST-BEGIN "):
			cur = strings.TrimPrefix(l, "SELFTEST-BEGIN ")
			res[cur] = []string{}
		case strings.HasPrefix(l, "SELFTEST-OUT "):
			s, err := strconv.Unquote(strings.TrimPrefix(l, "SELFTEST-OUT "))
			if err == nil {
				res[cur] = append(res[cur], s)
			}
		case strings.HasPrefix(l, "SELFTEST-END "):
			f := strings.Fields(l)
			if len(f) >= 3 && f[2] != "status=ok" {
				res[cur] = append(res[cur], "<"+strings.Join(f[2:], " ")+">")
			}
		}
	}
	return res
}

type replayResult struct {
	status  string
	clauses []string
	msg     string
}

func parseReplayOutput(out string) map[string]replayResult {
	res := map[string]replayResult{}
	for _, l := range strings.Split(out, "\n") {
		l = strings.TrimSpace(l)
		if !strings.HasPrefix(l, "REPLAY-RESULT ") {
			continue
		}
		var file, status, clauses, msg string
		rest := strings.TrimPrefix(l, "REPLAY-RESULT ")
		// file=... status=... clauses="..." msg="..."
		i := strings.Index(rest, " status=")
		file = strings.TrimPrefix(rest[:i], "file=")
		rest = rest[i+len(" status="):]
		j := strings.Index(rest, " clauses=")
		status = rest[:j]
		rest = rest[j+len(" clauses="):]
		k := strings.Index(rest, " msg=")
		clauses, _ = strconv.Unquote(rest[:k])
		msg, _ = strconv.Unquote(rest[k+len(" msg="):])
		rr := replayResult{status: status, msg: msg}
		if clauses != "" {
			rr.clauses = strings.Split(clauses, ",")
		}
		res[file] = rr
	}
	return res
}

// ---- main -------------------------------------------------------------------

func usage() {
	fmt.Fprintln(os.Stderr, "usage: polysym run <property> <quick|thorough> | polysym replay <file>")
	os.Exit(2)
}

func main() {
	if v := os.Getenv("VERIF_DIR"); v != "" {
		verifDir = v
	}
	// only for evaluating seeded changes in a scratch worktree; registered commands use /repo
	if v := os.Getenv("POLYSYM_REPO"); v != "" {
		repoDir = v
	}
	if len(os.Args) < 2 {
		usage()
	}
	switch os.Args[1] {
	case "run":
		if len(os.Args) < 4 {
			usage()
		}
		os.Exit(runProperty(os.Args[2], os.Args[3]))
	case "replay":
		if len(os.Args) < 3 {
			usage()
		}
		os.Exit(replayFile(os.Args[2]))
	default:
		usage()
	}
}

type evidence struct {
	PropertyID  string                 `json:"property_id"`
	Tier        string                 `json:"tier"`
	Seed        int64                  `json:"seed"`
	Level       string                 `json:"level"`
	Coverage    map[string]interface{} `json:"coverage"`
	Assumptions []string               `json:"assumptions"`
	WallS       float64                `json:"wall_s"`
	Violations  int                    `json:"violations"`
}

func sortedKeys(m map[string]bool) []string {
	var out []string
	for k := range m {
		out = append(out, k)
	}
	sort.Strings(out)
	return out
}

func violKey(v Violation) string { return v.Harness + "|" + v.Clause + "|" + v.Kind + "|" + v.Finding }

func writeReplay(prop, tier string, v Violation) string {
	dir := filepath.Join(verifDir, "replays")
	os.MkdirAll(dir, 0755)
	body := map[string]interface{}{"property": prop, "harness": v.Harness, "tier": tier, "clause": v.Clause, "kind": v.Kind,
		"draws": v.Draws, "prefix": v.Prefix, "detail": v.Detail, "finding": v.Finding, "sched": v.Sched, "sched_points": len(v.Sched), "map_iterations": v.MapIters}
	b, _ := json.MarshalIndent(body, "", " ")
	h := sha1.Sum(b)
	path := filepath.Join(dir, fmt.Sprintf("%s-%s-%x.json", prop, v.Harness, h[:5]))
	os.WriteFile(path, b, 0644)
	return path
}

func runProperty(prop, tier string) int {
	t0 := time.Now()
	seed := int64(0)
	if s := os.Getenv("VERIF_SEED"); s != "" {
		seed, _ = strconv.ParseInt(s, 10, 64)
	}
	eng := LoadEngine(prop, tier, seed)
	curEngine = eng
	loadS := time.Since(t0).Seconds()
	nworkers := runtime.NumCPU()
	if s := os.Getenv("POLYSYM_WORKERS"); s != "" {
		nworkers, _ = strconv.Atoi(s)
	}
	rs := &RunState{eng: eng, stats: map[string]*HarnessStats{}, covers: map[string]bool{}, seen: map[string]bool{}, asserts: map[string]bool{},
		fns: map[string]bool{}, models: map[string]bool{}, natives: map[string]bool{}, stubs: map[string]bool{}, witnessed: map[string]bool{}, maxPaths: 3000000, truncated: map[string]bool{}, stoppedEarly: map[string]bool{}}
	if s := os.Getenv("POLYSYM_MAXPATHS"); s != "" {
		rs.maxPaths, _ = strconv.Atoi(s)
	}
	if old, _ := filepath.Glob(filepath.Join(verifDir, "replays", prop+"-*.json")); len(old) > 0 {
		for _, f := range old {
			os.Remove(f)
		}
	}
	harnesses := eng.harnessFns("Harness")
	selftests := eng.harnessFns("Selftest")
	only := os.Getenv("POLYSYM_ONLY")
	inconclusive := []string{}
	mismatch := []string{}

	// --- translator validation: selftests in the engine and natively
	validated := 0
	stByRel := map[string][]string{}
	allByRel := map[string][]string{}
	for _, f := range selftests {
		stByRel[eng.relDirOf(f)] = append(stByRel[eng.relDirOf(f)], f.Name())
		allByRel[eng.relDirOf(f)] = append(allByRel[eng.relDirOf(f)], f.Name())
	}
	for _, f := range harnesses {
		allByRel[eng.relDirOf(f)] = append(allByRel[eng.relDirOf(f)], f.Name())
	}
	if len(selftests) > 0 && os.Getenv("POLYSYM_SKIP_SELFTEST") == "" {
		engOut := map[string][]string{}
		tt := NewTermTable()
		w := &Worker{eng: eng, tt: tt}
		w.sv = NewSolver(tt, eng.timeoutMs, "")
		forcedOut := map[string][]string{}
		for _, f := range selftests {
			res := w.runPath(f, nil, false)
			o := res.out
			if res.status != "ok" {
				o = append(o, "<status="+res.status+" "+res.msg+">")
			}
			engOut[f.Name()] = o
			for fn := range res.fns {
				rs.fns[fn.String()] = true
			}
			// second run with every stdlib model forced onto its symbolic path
			forceModels = true
			res2 := w.runPath(f, nil, false)
			forceModels = false
			o2 := res2.out
			if res2.status != "ok" {
				o2 = append(o2, "<status="+res2.status+" "+res2.msg+">")
			}
			forcedOut[f.Name()] = o2
		}
		w.sv.Close()
		for name, o := range forcedOut {
			if strings.Join(o, "\x00") != strings.Join(engOut[name], "\x00") {
				mismatch = append(mismatch, fmt.Sprintf("selftest %s: stdlib models disagree with the native functions", name))
				fmt.Printf("MODEL-MISMATCH %s\n native-call run: %q\n model run:       %q\n", name, engOut[name], o)
			}
		}
		for rel := range stByRel {
			out, err := eng.nativeRun(rel, allByRel[rel], []string{"VERIF_MODE=selftest", "VERIF_TIER=" + tier})
			nat := parseSelftestOutput(out)
			if err != nil && len(nat) == 0 {
				fmt.Println("native selftest run failed:\n" + out)
				mismatch = append(mismatch, "native selftest build/run failed for "+rel)
				continue
			}
			for _, name := range stByRel[rel] {
				a, b := engOut[name], nat[name]
				// a Go panic in the code under test ends both runs: the wording of the last line differs, the outputs before it must agree
				if len(a) > 0 && len(b) > 0 && strings.HasPrefix(a[len(a)-1], "<status=violation-end panic:") && strings.HasPrefix(b[len(b)-1], "<status=panic") {
					a = append(append([]string{}, a[:len(a)-1]...), "<panic>")
					b = append(append([]string{}, b[:len(b)-1]...), "<panic>")
					fmt.Printf("  note: selftest %s panics in the code under test (engine and native agree up to the panic)\n", name)
				}
				if strings.Join(a, "\x00") == strings.Join(b, "\x00") && len(a) > 0 {
					validated += len(a)
				} else if len(a) > 0 && strings.HasPrefix(a[len(a)-1], "<status=unsupported") {
					inconclusive = append(inconclusive, fmt.Sprintf("selftest %s: %s", name, a[len(a)-1]))
				} else {
					mismatch = append(mismatch, fmt.Sprintf("selftest %s: engine and native outputs differ", name))
					fmt.Printf("SELFTEST-MISMATCH %s\n engine: %q\n native: %q\n", name, a, b)
				}
			}
		}
	}

	// --- exploration
	passes := []int{0}
	if os.Getenv("POLYSYM_NO_REVERSE") == "" {
		passes = append(passes, 1)
		if tier == "quick" {
			// the alternating pass is affordable at quick bounds only (C07 thorough did not finish with it)
			passes = append(passes, 2)
		}
	}
	for _, pass := range passes {
		rev := pass > 0
		eng.mapOrderRev = rev
		eng.mapOrderAlt = pass == 2 // insertion order and reversed order alternate between the map iterations of a path
		for _, h := range harnesses {
			if only != "" && !strings.Contains(h.Name(), only) {
				continue
			}
			if rev {
				// the second pass reverses the order of every map iteration: it only matters for harnesses that iterate maps
				if prev := rs.stats[h.Name()]; prev != nil && prev.MapRanges == 0 {
					if pass == 1 {
						fmt.Printf("  %s: reversed / alternating map-order passes skipped (no iteration over a map of more than one entry)\n", h.Name())
					}
					continue
				}
			}
			rs.explore(h, nworkers)
			st := rs.stats[h.Name()]
			fmt.Printf("  %s: %d paths (%d assumed away), %d queries, %.1fs\n", h.Name(), st.Paths, st.Assumed, st.Queries, st.WallS)
			for m, n := range st.Unsupported {
				inconclusive = append(inconclusive, fmt.Sprintf("%s: unsupported on %d paths: %s", h.Name(), n, m))
			}
			for m, n := range st.EngineErr {
				inconclusive = append(inconclusive, fmt.Sprintf("%s: ENGINE ERROR on %d paths: %s", h.Name(), n, m))
			}
			if st.Budget > 0 {
				inconclusive = append(inconclusive, fmt.Sprintf("%s: step/depth budget exceeded on %d paths", h.Name(), st.Budget))
			}
			if rs.truncated[h.Name()] {
				inconclusive = append(inconclusive, fmt.Sprintf("%s: path limit %d reached", h.Name(), rs.maxPaths))
			}
		}
	}
	eng.crossWG.Wait()
	if rs.unknown {
		for k, n := range eng.unknowns {
			inconclusive = append(inconclusive, fmt.Sprintf("solver answered unknown %d times for: %s", n, k))
		}
	}
	for _, d := range eng.crossDisagree {
		mismatch = append(mismatch, "solver disagreement: "+d)
	}
	for k, n := range eng.solverErrs {
		inconclusive = append(inconclusive, fmt.Sprintf("solver error (%d times): %s", n, k))
	}
	// vacuity
	for c := range rs.covers {
		if !rs.seen[c] {
			inconclusive = append(inconclusive, "vacuity: cover point never satisfiable: "+c)
		}
	}
	for _, h := range harnesses {
		if only != "" && !strings.Contains(h.Name(), only) {
			continue
		}
		found := false
		for k := range rs.asserts {
			if strings.HasPrefix(k, h.Name()+":") {
				found = true
			}
		}
		if !found {
			inconclusive = append(inconclusive, "vacuity: harness reached no assertion: "+h.Name())
		}
	}

	// --- violations: group, replay natively
	groups := map[string][]Violation{}
	for _, v := range rs.viols {
		k := violKey(v)
		if len(groups[k]) < 3 {
			groups[k] = append(groups[k], v)
		}
	}
	var keys []string
	for k := range groups {
		keys = append(keys, k)
	}
	sort.Strings(keys)
	type pending struct {
		v    Violation
		path string
	}
	byRel := map[string][]pending{}
	relOfHarness := map[string]string{}
	for _, h := range harnesses {
		relOfHarness[h.Name()] = eng.relDirOf(h)
	}
	for _, k := range keys {
		for _, v := range groups[k] {
			path := writeReplay(prop, tier, v)
			rel := relOfHarness[v.Harness]
			byRel[rel] = append(byRel[rel], pending{v, path})
		}
	}
	newViolations := 0
	var violationLines, findingLines []string
	confirmedFindings := map[string]bool{}
	reportedNew := map[string]bool{}
	for rel, ps := range byRel {
		var files []string
		for _, pd := range ps {
			files = append(files, pd.path)
		}
		out, _ := eng.nativeRun(rel, allByRel[rel], []string{"VERIF_MODE=replay", "VERIF_TIER=" + tier, "VERIF_REPLAY=" + strings.Join(files, ":")})
		rr := parseReplayOutput(out)
		if len(rr) == 0 {
			fmt.Println("native replay run produced no results:\n" + out)
		}
		for _, pd := range ps {
			r, ok := rr[pd.path]
			confirmed := false
			if ok {
				switch pd.v.Kind {
				case "assert":
					for _, c := range r.clauses {
						if c == pd.v.Clause {
							confirmed = true
						}
					}
					if r.status == "panic" {
						// a crash of the real code where the engine saw a failed assertion
						confirmed = false
					}
				case "panic":
					confirmed = r.status == "panic"
				case "nontermination", "deadlock":
					confirmed = r.status == "timeout"
				}
			}
			k := violKey(pd.v)
			if pd.v.Finding != "" {
				if confirmed {
					confirmedFindings[pd.v.Finding] = true
					os.Remove(pd.path) // replays of known findings are not kept
				} else if !confirmedFindings[pd.v.Finding] {
					fmt.Printf("  note: witness for known finding %s did not reproduce natively (status=%s clauses=%v msg=%s)\n", pd.v.Finding, r.status, r.clauses, r.msg)
					os.Remove(pd.path)
				}
				continue
			}
			if confirmed {
				if !reportedNew[k] {
					reportedNew[k] = true
					newViolations++
					violationLines = append(violationLines, fmt.Sprintf("VIOLATION property=%s replay=%s", prop, pd.path))
					fmt.Printf("  violated: harness=%s clause=%s kind=%s detail=%s\n", pd.v.Harness, pd.v.Clause, pd.v.Kind, pd.v.Detail)
				} else {
					os.Remove(pd.path)
				}
			} else {
				if !reportedNew[k] {
					mismatch = append(mismatch, fmt.Sprintf("counterexample for %s/%s (%s) did not reproduce natively: native status=%s clauses=%v msg=%q replay=%s", pd.v.Harness, pd.v.Clause, pd.v.Kind, r.status, r.clauses, r.msg, pd.path))
				}
			}
		}
	}
	for id := range rs.witnessed {
		f := eng.findings[id]
		if confirmedFindings[id] {
			findingLines = append(findingLines, fmt.Sprintf("KNOWN-FINDING: property=%s %s: %s", prop, id, f.WhatFails))
		} else {
			mismatch = append(mismatch, "known finding "+id+" was witnessed by the engine but its witness did not reproduce natively")
		}
	}
	sort.Strings(findingLines)

	// --- evidence
	var hs []*HarnessStats
	totalPaths, totalQueries := 0, 0
	var samples []interface{}
	for _, h := range harnesses {
		st := rs.stats[h.Name()]
		if st == nil {
			continue
		}
		hs = append(hs, st)
		totalPaths += st.Paths
		totalQueries += st.Queries
		for _, s := range st.Samples {
			samples = append(samples, map[string]interface{}{"harness": st.Name, "path_inputs": s})
		}
	}
	if len(samples) == 0 {
		samples = append(samples, "no path completed")
	}
	totalTransitions := rs.sat + rs.unsat + rs.unk
	for _, st := range hs {
		totalTransitions += st.TableDecisions + int(st.ChoicePoints)
	}
	if totalQueries == 0 {
		totalQueries = rs.sat + rs.unsat + rs.unk
	}
	cov := map[string]interface{}{
		"states":                        totalPaths,
		"transitions":                   totalTransitions,
		"traces_validated_against_impl": validated,
		"samples":                       samples,
		"harnesses":                     hs,
		"functions_encoded":             sortedKeys(rs.fns),
		"queries":                       map[string]int{"sat": rs.sat, "unsat": rs.unsat, "unknown": rs.unk},
		"solver_s":                      rs.solverS,
		"solvers":                       []string{"z3 4.8.12 (z3 -in, push/pop; SAT pipeline for large pure bit-vector queries)", "cvc5 1.0 and z3 5.1.0 (one-shot cross-check of a sample of assertion queries)"},
		"cross_checked":                 map[string]interface{}{"assertion_queries": eng.assertQueries, "re_run_on_other_solvers": eng.crossRuns, "answered": eng.crossAnswered, "disagreements": eng.crossDisagree},
		"models_invoked":                sortedKeys(rs.models),
		"native_calls":                  sortedKeys(rs.natives),
		"stubs_invoked":                 sortedKeys(rs.stubs),
		"covers":                        map[string]interface{}{"declared": sortedKeys(rs.covers), "satisfied": sortedKeys(rs.seen)},
		"assert_sites_reached":          sortedKeys(rs.asserts),
		"known_findings_witnessed":      sortedKeys(rs.witnessed),
		"stopped_early_after_violation": sortedKeys(rs.stoppedEarly),
		"inconclusive":                  inconclusive,
		"engine_mismatch":               mismatch,
		"load_s":                        loadS,
		"bounds":                        boundsOf(prop, tier),
		"map_iteration_orders":          len(passes),
		"explanation":                   "symbolic execution of /repo's SSA (go/ssa) by decision-prefix DFS; states = explored paths (equivalence classes of inputs); transitions = SMT queries + branch conditions decided from domain tables + decision points (structure choices, schedule choices, solver-decided branches) along the explored paths; each assertion is decided for all values of the symbolic inputs on the path (by the solver, or syntactically when both sides are the same term)",
	}
	ev := evidence{PropertyID: prop, Tier: tier, Seed: seed, Level: "model_checking", Coverage: cov,
		Assumptions: assumptionsOf(prop), WallS: time.Since(t0).Seconds(), Violations: newViolations}
	os.MkdirAll(filepath.Join(verifDir, "evidence"), 0755)
	b, _ := json.MarshalIndent(ev, "", " ")
	os.WriteFile(filepath.Join(verifDir, "evidence", prop+".json"), b, 0644)

	// --- verdict
	for _, l := range findingLines {
		fmt.Println(l)
	}
	fmt.Printf("%s %s: %d paths, %d queries (sat %d, unsat %d, unknown %d), solver %.1fs, wall %.1fs, selftest vectors %d\n",
		prop, tier, totalPaths, rs.sat+rs.unsat+rs.unk, rs.sat, rs.unsat, rs.unk, rs.solverS, time.Since(t0).Seconds(), validated)
	if newViolations > 0 {
		for _, m := range mismatch {
			fmt.Println("note: ENGINE-MISMATCH " + m)
		}
		for _, l := range violationLines {
			fmt.Println(l)
		}
		return 1
	}
	if len(mismatch) > 0 {
		for _, m := range mismatch {
			fmt.Println("ENGINE-MISMATCH property=" + prop + " " + m)
		}
		return 4
	}
	if len(inconclusive) > 0 {
		for _, m := range inconclusive {
			fmt.Println("INCONCLUSIVE property=" + prop + " " + m)
		}
		return 3
	}
	fmt.Println("OK property=" + prop)
	return 0
}

func replayFile(path string) int {
	b, err := os.ReadFile(path)
	if err != nil {
		fmt.Fprintln(os.Stderr, err)
		return 2
	}
	var body struct {
		Property string `json:"property"`
		Harness  string `json:"harness"`
		Tier     string `json:"tier"`
		Clause   string `json:"clause"`
		Kind     string `json:"kind"`
	}
	json.Unmarshal(b, &body)
	eng := LoadEngine(body.Property, body.Tier, 0)
	curEngine = eng
	var rel string
	var all []string
	for _, h := range append(eng.harnessFns("Harness"), eng.harnessFns("Selftest")...) {
		if h.Name() == body.Harness {
			rel = eng.relDirOf(h)
		}
	}
	for _, h := range append(eng.harnessFns("Harness"), eng.harnessFns("Selftest")...) {
		if eng.relDirOf(h) == rel {
			all = append(all, h.Name())
		}
	}
	abs, _ := filepath.Abs(path)
	out, _ := eng.nativeRun(rel, all, []string{"VERIF_MODE=replay", "VERIF_TIER=" + body.Tier, "VERIF_REPLAY=" + abs})
	rr := parseReplayOutput(out)
	r, ok := rr[abs]
	if !ok {
		fmt.Println(out)
		return 2
	}
	fmt.Printf("replay %s: harness=%s expected clause=%s kind=%s -> native status=%s failed clauses=%v msg=%q\n", path, body.Harness, body.Clause, body.Kind, r.status, r.clauses, r.msg)
	if r.status == "ok" {
		return 0
	}
	fmt.Printf("VIOLATION property=%s replay=%s\n", body.Property, path)
	return 1
}
