#!/bin/sh
# check.sh <property id> <quick|thorough>   |   check.sh replay <file>
# Rebuilds nothing in /repo: the engine loads /repo's current working tree
# (go/packages + overlay harness) on every run.
cd /verif || exit 2
export GOFLAGS=-mod=mod GOPROXY=off GOSUMDB=off GOTOOLCHAIN=local
if [ ! -x bin/polysym ] || [ -n "$(find engine -name '*.go' -newer bin/polysym 2>/dev/null | head -1)" ]; then
  mkdir -p bin
  (cd engine && go build -o ../bin/polysym .) || { echo "engine build failed"; exit 2; }
fi
if [ "$1" = "replay" ]; then
  exec ./bin/polysym replay "$2"
fi
TIER="${2:-${VERIF_TIER:-quick}}"
exec ./bin/polysym run "$1" "$TIER"
