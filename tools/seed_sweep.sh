#!/bin/bash
# tools/seed_sweep.sh [name-glob]   re-runs the quick check of every seeded change against a scratch
# worktree with the change applied and refreshes check_detected / check_exit_code / violated_clauses in meta.json
cd /verif
for d in seeded/${1:-*}/; do
  n=$(basename $d)
  line=$(tools/seed_recheck.sh $n quick 2>&1 | grep "^$n ")
  echo "$line"
  rc=$(echo "$line" | sed 's/.* rc=\([0-9]*\) .*/\1/')
  cl=$(echo "$line" | sed 's/.*VIOLATION lines; //')
  python3 - "$n" "$rc" "$cl" <<'PY'
import json,sys
n,rc,cl=sys.argv[1],sys.argv[2],sys.argv[3]
p='/verif/seeded/%s/meta.json'%n
m=json.load(open(p))
if rc.isdigit():
    m['check_exit_code']=int(rc); m['check_detected']=(int(rc)==1); m['check_tier']='quick'
    if cl.strip(): m['violated_clauses']=cl.strip()
    json.dump(m,open(p,'w'),indent=1)
PY
done
