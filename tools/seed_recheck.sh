#!/bin/bash
# tools/seed_recheck.sh <seeded name> [quick|thorough]  (env ONLY=<harness> restricts the run)
# re-runs the property's check against a scratch worktree of /repo HEAD with seeded/<name>/patch.diff applied
set -u
NAME=$1; TIER=${2:-quick}
PROP=$(python3 -c "import json;print(json.load(open('/verif/seeded/$NAME/meta.json'))['property'])")
WT=/tmp/wt-eval-$$
mkdir -p /tmp/seedverif-$$ && cp -r /verif/harness /verif/known_findings.json /tmp/seedverif-$$/
git -C /repo worktree add -q --detach $WT HEAD || exit 2
trap 'git -C /repo worktree remove --force $WT >/dev/null 2>&1; rm -rf /tmp/seedverif-$$' EXIT
git -C $WT apply /verif/seeded/$NAME/patch.diff || { echo "patch does not apply"; exit 2; }
s=$(date +%s)
out=$(cd /verif && POLYSYM_ONLY=${ONLY:-} POLYSYM_REPO=$WT VERIF_DIR=/tmp/seedverif-$$ timeout ${TIMEOUT:-1800} ./bin/polysym run $PROP $TIER 2>&1); rc=$?
echo "$NAME $PROP $TIER rc=$rc ($(( $(date +%s)-s ))s): $(echo "$out" | grep -c '^VIOLATION') VIOLATION lines; $(echo "$out" | grep 'violated:' | sed 's/.*clause=//' | cut -d' ' -f1 | sort -u | paste -sd,)"
[ -n "${VERBOSE:-}" ] && echo "$out" | tail -20
exit 0
