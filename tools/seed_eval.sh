#!/bin/bash
# tools/seed_eval.sh <PROP> <dir with patch.diff demo_test.go notes.md> <name>
# 1. confirms the seeded change in a scratch worktree: compiles, existing suite passes,
#    demonstration fails with the change and passes without it
# 2. applies it to /repo, runs the property's quick check, undoes it
# 3. stores everything under /verif/seeded/<name>/
set -u
PROP=$1; SRC=$2; NAME=$3
export GOFLAGS=-mod=mod GOPROXY=off GOSUMDB=off GOTOOLCHAIN=local
WT=/tmp/wt-eval-$$
mkdir -p /tmp/seedverif-$$ && cp -r /verif/harness /verif/known_findings.json /tmp/seedverif-$$/
git -C /repo worktree add -q --detach $WT HEAD || exit 2
trap 'git -C /repo worktree remove --force $WT >/dev/null 2>&1; rm -rf /tmp/seedverif-$$' EXIT
pkgname=$(grep -m1 '^package ' $SRC/demo_test.go | awk '{print $2}' | sed 's/_test$//')
pkgdir=$(cd $WT && grep -l --include='*.go' -r "^package $pkgname\$" . | grep -v _test.go | grep -v SEED | head -1 | xargs dirname)
[ -z "$pkgdir" ] && { echo "cannot find package dir for $pkgname"; exit 2; }
cp $SRC/demo_test.go $WT/$pkgdir/zz_seed_demo_test.go
run=$(grep -o 'func Test[A-Za-z0-9_]*' $SRC/demo_test.go | sed 's/func //' | paste -sd'|')
cd $WT
base_demo=$(go test -vet=off -count=1 ${SEEDTAGS:+-tags $SEEDTAGS} -run "^($run)\$" ./$pkgdir 2>&1 | tail -1)
git apply $SRC/patch.diff || { echo "patch does not apply"; exit 2; }
build=$(go build ./... 2>&1 | tail -1)
rm $WT/$pkgdir/zz_seed_demo_test.go
suite=$(go test -vet=off -count=1 ./... 2>&1 | grep -v '^ok\|no test files' | head -3)
cp $SRC/demo_test.go $WT/$pkgdir/zz_seed_demo_test.go
mut_demo=$(go test -vet=off -count=1 ${SEEDTAGS:+-tags $SEEDTAGS} -run "^($run)\$" ./$pkgdir 2>&1 | tail -1)
cd /verif
echo "  demo on pristine: $base_demo"
echo "  build with change: ${build:-ok}; suite failures: ${suite:-none}"
echo "  demo with change: $mut_demo"
confirmed=no
case "$base_demo" in ok*) case "$mut_demo" in FAIL*) [ -z "$build" ] && [ -z "$suite" ] && confirmed=yes;; esac;; esac
echo "  confirmed: $confirmed"
# run the check against the scratch worktree with the change (the engine is pointed at it;
# /repo itself is not touched, so background runs against /repo are not disturbed)
rm -f $WT/$pkgdir/zz_seed_demo_test.go
s=$(date +%s)
out=$(POLYSYM_REPO=$WT VERIF_DIR=/tmp/seedverif-$$ timeout 1800 ./bin/polysym run $PROP ${TIER:-quick} 2>&1); rc=$?
e=$(date +%s)
echo "  check $PROP rc=$rc ($((e-s))s): $(echo "$out" | grep -c '^VIOLATION') VIOLATION lines; $(echo "$out" | grep 'violated:' | sed 's/.*clause=//' | cut -d' ' -f1 | sort -u | paste -sd,)"
mkdir -p seeded/$NAME
cp $SRC/patch.diff seeded/$NAME/patch.diff
cp $SRC/demo_test.go seeded/$NAME/demo_test.go
[ -f $SRC/notes.md ] && cp $SRC/notes.md seeded/$NAME/notes.md
python3 - <<PY
import json
json.dump({"property":"$PROP","name":"$NAME","demo_package_dir":"$pkgdir","demo_tests":"$run",
 "confirmed_by_me":"$confirmed"=="yes","what_i_ran":"scratch worktree of /repo HEAD: go build ./... ; go test -vet=off -count=1 ./... (existing suite) ; go test -run '^($run)\$' ./$pkgdir with and without patch.diff",
 "demo_on_pristine":"""$base_demo""","demo_with_change":"""$mut_demo""",
 "check_tier":"${TIER:-quick}","check_exit_code":$rc,"check_detected": $rc==1,
 "violated_clauses":"""$(echo "$out" | grep 'violated:' | sed 's/.*clause=//' | cut -d' ' -f1 | sort -u | paste -sd,)""",
 "needs_to_manifest": open("$SRC/notes.md").read()[:1500] if __import__("os").path.exists("$SRC/notes.md") else ""},
 open("seeded/$NAME/meta.json","w"),indent=1)
PY
