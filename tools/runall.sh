#!/bin/sh
# tools/runall.sh [tier]  — runs every claimed check, prints verdict and wall time
cd /verif
TIER=${1:-quick}
for p in $(python3 -c "import json;print(' '.join(c['property_id'] for c in json.load(open('MANIFEST.json'))['checks']))"); do
  s=$(date +%s)
  out=$(./check.sh $p $TIER 2>&1); rc=$?
  e=$(date +%s)
  echo "$p rc=$rc $((e-s))s $(echo "$out" | grep -c '^KNOWN-FINDING') known-finding lines; $(echo "$out" | tail -1 | cut -c1-120)"
done
