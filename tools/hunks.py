#!/usr/bin/env python3
# tools/hunks.py <diff> <out> <hunk numbers...> : write a patch with only the selected hunks (1-based)
import sys,re
d=open(sys.argv[1]).read()
out=sys.argv[2]
sel=set(int(x) for x in sys.argv[3:])
lines=d.split('\n')
hdr=[];hunks=[];cur=None
for l in lines:
    if l.startswith('@@'):
        cur=[l];hunks.append(cur)
    elif cur is None:
        hdr.append(l)
    else:
        cur.append(l)
hdr=[l for l in hdr if l.startswith('--- ') or l.startswith('+++ ')]
res=hdr[:]
for i,h in enumerate(hunks,1):
    if i in sel:
        while h and h[-1]=='' : h=h[:-1]
        res+=h
open(out,'w').write('\n'.join(res)+'\n')
