#!/usr/bin/env python3
# Regenerates /verif/MANIFEST.json from the table below (kept in one place so
# the claimed level / notes stay consistent with DESIGN.md).
import json, os

V = os.path.dirname(os.path.dirname(os.path.abspath(__file__)))
props = [json.loads(l)['id'] for l in open(os.path.join(V, 'properties.jsonl'))]

TECH = "bounded symbolic execution of /repo's go/ssa by the polysym engine; every assertion decided by z3 over all values of the symbolic inputs on each explored path; counterexamples replayed natively"
BASE_NOTE = ("Trusted: go/packages+go/ssa, the engine's interpreter and stdlib models (differentially validated by running the repository's own vectors through engine and native build), z3 4.8.12. "
             "Bounded: only the lengths/shapes listed in the evidence file's 'bounds' are covered; nothing is claimed outside them. ")

claimed = {
 "C12": dict(design="5/C12", text="All byte strings up to the stated lengths (all 256 byte values; larger lengths over 2-, 3-, 4-letter alphabets): the solver shows on every feasible path of the real Booth/RotateSequence SSA that the result has the same length, is a rotation, is lexicographically <= every rotation, and that all rotations canonicalise to the same string.",
             note="No stubs. Strings longer than the bounds are outside the claim."),
 "C11": dict(design="5/C11", text="Reverse complement / complement / reverse / palindrome check decided for all IUPAC strings (both cases) up to the stated lengths against an oracle complement table written in the harness; per-code base-set semantics complete over the 30 letters; IUPAC expansion (count, membership, distinctness, commutation with reverse complement) for all strings up to length 3 (quick) / 4 (thorough).",
             note="The expansion lookup forks per code (enumeration of 15^n code combinations, solver covers the case bits)."),
 "C04": dict(design="5/C04", text="Rotation, strand, case and RNA/DNA invariance of seqhash.Hash decided for all sequences over the accepted alphabets up to the stated lengths, every rotation offset and flag combination.",
             note="blake3.Sum256 is an uninterpreted function per input length (congruence only; digests compared under the stated collision-freeness assumption)."),
 "C05": dict(design="5/C05", text="v1 form (tag letters, 64 lower-hex digits, digest of the brute-force least representative), separation (equal hash iff same molecule up to rotation/strand as the flags allow, different declarations/lengths never collide) and rejection (unknown type, foreign letter, double-stranded protein) decided for all inputs up to the stated lengths.",
             note="BLAKE3 is an uninterpreted, assumed collision-free function; that the digest is BLAKE3-256 is outside the claim."),
 "C06": dict(design="5/C06", text="For each of the 25 tables the solver decides all 512 case spellings of the 64 codons against an independently written NCBI oracle (standard code + per-table reassignments); start/stop lists compared with NCBI's; concatenation at codon boundaries, partial-codon and case clauses for all strings up to length 7 (quick) / 10 (thorough).",
             note="The NCBI oracle in the harness was transcribed by hand from the NCBI genetic-code page. Map iteration order of the table generator: insertion order (quick), plus reversed (thorough)."),
 "C08": dict(design="5/C08", text="Counting: for every coding sequence over all ASCII bytes up to the stated length the solver decides that each of the 64 weights equals the number of in-frame case-insensitive occurrences and the assignment is untouched. History: every operation sequence (request default / re-weight default / add) up to the stated length over two table ids is executed on the real code with struct/slice aliasing modelled exactly, and every held table is compared with a value-semantics model after every step.",
             note="Known finding C08-F1 (OptimizeTable writes through to the shared default table) is reported as KNOWN-FINDING; histories outside its region (no table id both re-weighted and requested twice) must hold. Serialise / parse operations go through the engine's JSON text layer. Concurrency / race detector not covered."),
 "C07": dict(design="5/C07", text="Round trip (3 bases per residue, translates back) for every protein of 1..2 letters over each table's letters and every value of every rand.Intn draw; unencodable residues (all ASCII bytes) give an error, never a panic; the 10% threshold and zero-weight exclusion decided for symbolic weights; every output of random.ProteinSequence (all rand draws) is optimisable.",
             note="math/rand.Intn is a stub returning an arbitrary value in range (panics for n<=0); chooser()'s float division/comparison is abstracted to real arithmetic in the threshold clause; the statistical proportionality clause is not covered. Replays of rand-dependent counterexamples are statistical (up to 3000 native tries)."),
 "C18": dict(design="5/C18", text="Add: 128 symbolic 64-bit weights over full 64-codon tables, every weight is the sum and code/starts/stops are the first table's. Compromise: for enumerated small weights and a symbolic real cut-off in [-1,2] the solver decides error iff cut-off outside [0,1], symmetry, zero-or-mean-of-shares within the +/-1-per-rounding tolerance, zero below / mean above the cut-off, code kept.",
             note="Shares are computed with real float64 arithmetic on concrete weights; int(10000*cutOff) is abstracted to real arithmetic with truncation."),
 "C17": dict(design="5/C17", text="De Bruijn sequence: orders 1..4 (quick) / 1..6 (thorough) executed by the engine and checked for length and every-word-exactly-once (closed computation). Barcodes: for symbolic banned sequences (length 2..3 over ATGC) and filters rejecting symbolic windows the solver decides on every path that each barcode is a substring of the requested length, barcodes share no n-word, no barcode contains a ban or the reverse complement of one, every filter accepts every barcode, and the call terminates within the step budget.",
             note="Filters are restricted to 'reject an arbitrary set of at most 1 (quick) / 2 (thorough) windows' (fully uninterpreted predicates explode as 2^windows). Orders 7..11 are outside the claim."),
 "C19": dict(design="5/C19", text="In a real-arithmetic abstraction of the float code: for all A/C/G/T sequences (both cases) up to the stated length and symbolic concentrations the solver decides that dH and dS are the nearest-neighbour sums plus initiation / symmetry / terminal-AT / salt terms (parameter values taken from the package's own table), the Tm formula with f = 1 or 4, case independence, independence of dH from concentrations, strict monotonicity of Tm in each concentration inside the duplex regime, MeltingTemp = SantaLucia at the default conditions, Marmur-Doty, and strand symmetry of the parameter table.",
             note="REAL-ARITHMETIC ABSTRACTION: every float64 operation is mapped to exact rational arithmetic and math.Log to an uninterpreted strictly monotone function; floating-point rounding is outside the claim (native replays compare with a 1e-9 relative tolerance)."),
 "C02": dict(design="5/C02", text="Every location tree of the stated family (all spans / single bases with all partial-marker combinations over a 4- or 6-base parent, complements, joins of 2..3 (quick) / 2..4 (thorough) operands, complement(join), join containing complement(join)) is run through parseLocation / AddFeature / GetSequence / BuildLocationString from SSA with the parent bases symbolic over the IUPAC codes; the solver decides for all parents that parsed and assembled locations denote the INSDC bases, that written text is accepted by a strict INSDC recogniser, denotes the same bases and partial ends and parses back.",
             note="Known finding C02-F1 (3' partial written as a..b>, pinned by TestGbkLocationStringBuilder) is scoped to the syntax clause of trees with a 3' partial end. The tree shape is enumerated (forked); the solver covers the parent sequence."),
 "C10": dict(design="5/C10", text="Designed layouts (4 enzymes incl. a custom 3-letter site, 0..2 / 0..4 sites in either orientation and case, boundary gaps, sites at the very ends of linear parts) with all filler bases symbolic over {A,T,a,t}: CutWithEnzyme / CutWithEnzymeByName from SSA (regexp through the symbolic matcher) must return exactly the fragments an independent geometry oracle computes, for EVERY rotation of circular parts, without panicking.",
             note="Precondition assumed as stated in the evidence (disjoint sites / overhang windows, cuts >= 2 overhangs apart). Layout structure is enumerated; the solver covers the filler bases (site detection is decided by domain tables because the filler cannot form a site)."),
 "C14": dict(design="5/C14", text="gff.Build then gff.Parse from SSA on structured sequences whose letters and field texts are symbolic: region name/bounds, the full sequence across the 70-column wrap (lengths around every wrap boundary; every length 1..212 in thorough), the nine columns, attributes and the 1-based/0-based coordinate conversion are preserved, and a parsed feature's GetSequence is bases start..end; no panic.",
             note="Preconditions as listed in the evidence (non-empty region name, RegionStart 1, RegionEnd = length, version set, >= 1 attribute). The independent-writer clause is covered only by the repository's excerpt as a translator-validation vector."),
 "C16": dict(design="5/C16", text="rebase.Parse from SSA on generated listings (prose line, supplier table indented with spaces or tabs, 0..2/3 records) whose field texts, enzyme names, supplier letters and supplier names are symbolic: one entry per record keyed by name, every field verbatim, isoschizomers split at commas, empty fields stay empty, each supplier letter decoded to the name given in the listing's own table. Export: the JSON export parses back to the same map under the json field/tag contract model.",
             note="Enzyme names and supplier letters are assumed pairwise distinct. Export is checked both through the json contract model (wide symbolic fields) and through the engine's JSON text layer (few symbolic bytes, characters that need escaping)."),
 "C15": dict(design="5/C15", text="json.MarshalIndent -> polyjson.Parse on structured annotated sequences (symbolic strings, flags and bounds; references, Other map and attribute maps absent / empty / populated; nested location trees): every field except ParentSequence equal, every feature re-linked to a parent and reporting the same sequence as before; and for one GenBank and one GFF record with symbolic contents, writing the parsed input directly and writing it after a detour through JSON give byte-identical text.",
             note="encoding/json is replaced by a contract model that reads the real struct types and tags of /repo's current source through go/types (exported fields, names, '-', omitempty, duplicate-name elimination, case-insensitive decode, nil<->null); A second harness uses the engine's JSON TEXT layer (encoder / parser after encoding/json's rules, validated byte for byte against the real package on the repository's sample.json) through polyjson.Write -> in-memory file -> polyjson.Read with text fields symbolic over the characters JSON escapes. Non-ASCII text and floats are outside the claim. Counterexamples are replayed natively against the real encoding/json."),
 "C13": dict(design="5/C13", text="fasta.Build / Parse / ParseConcurrent from SSA with record names and every sequence letter symbolic: Parse(Build(x)) = x, the parse result is unchanged by the harness's own re-wrapping (widths 1/3/60, blank lines, ';' comments, CRLF), sequences of 65536 letters (quick) and 65535/65536/65537/70000 (thorough) survive, and the streaming parser delivers the records in order and closes its channel exactly once for channel capacities 0/1/1000 over all explored schedules.",
             note="bufio.Scanner (incl. its token-size limit and Buffer()), bytes.Reader and bytes.Buffer are models; goroutines are scheduled at synchronisation points only (default schedule, its LIFO mirror and all schedules deviating at <= 2 (quick) / 3 (thorough) choice points); gzip, files and the race detector are outside the claim."),
 "C20": dict(design="5/C20", text="uniprot.Parse (the token loop) executed from SSA against every event script up to the stated length (entries, entries damaged inside, other elements/tokens, syntax errors), channel capacities 0/1/100, both documented consumer shapes and every explored schedule: entries before the damage are delivered once and in order, a damaged document reports at least one error, both channels are closed and the parser terminates (no deadlock, step budget as termination obligation).",
             note="encoding/xml.Decoder is an event-script stub with sticky syntax errors (natively the same script is laid out as a real Uniprot XML document for replay). There is no symbolic data in this check: scripts and schedules are enumerated by the executor and no solver query is needed; entry content, gzip and byte-level truncation are outside the claim.",
             tech="exhaustive exploration of event scripts x goroutine schedules by the polysym symbolic executor over the real go/ssa (no symbolic data: the state space is enumerated, the solver is not consulted); deadlock / step-budget detection; native replay"),
 "C09": dict(design="5/C09", text="Designed assemblies (1..2/3 junctions, alternatives, either orientation, input order, dead-end decoy) with symbolic fragment interiors run through CircularLigate / getConstructs / recurseLigate / seqhash.Hash from SSA with simulated goroutines and channels: returned constructs and the rings of the design correspond (none missing, none spurious, no two the same molecule up to rotation and strand); scheduling independence on concrete pools over all explored interleavings; the full GoldenGate pipeline with BsaI carriers; termination on pools whose overhangs close a cycle excluding the seed.",
             note="Goroutines are scheduled at synchronisation points only; GOMAXPROCS, the Go scheduler and the race detector are outside the claim. BLAKE3 is an assumed collision-free uninterpreted function."),
 "C01": dict(design="5/C01", text="Records laid out by an independent flat-file writer in the harness (LOCUS columns, keyword blocks with continuation lines, references, COMMENT, feature tables incl. features without qualifiers, two- and three-line locations, wrapped qualifier values, ORIGIN blocks) with locus-name characters, metadata words, qualifier-value bytes (printable ASCII without the double quote: '/', '=' and spaces included) and all ORIGIN letters symbolic: Parse from SSA (regexps through the symbolic matcher) returns the letters, every LOCUS field, re-joined keyword blocks, reference fields, features in order with key, location text and verbatim qualifier values; ParseMulti / ParseFlat give k results each equal to parsing the record alone.",
             note="Known finding C01-F7 (a wrapped value's continuation line beginning with '/') is scoped to the two qualifier clauses. Record structure is enumerated from a template family (see bounds); sizes of 10^5 bases / 40 features are outside the claim."),
 "C03": dict(design="5/C03", text="Structured records (symbolic locus name, sequence letters, metadata words, qualifier values; references with REMARK, extra keyword blocks, cached or assembled locations, wrapped DEFINITION) are written by genbank.Build (wordwrap from SSA) and read back by Parse: every compared field is equal, ParseMulti accepts the output, lines stay within 80 columns, ORIGIN blocks are numbered 1/61/121 and '//' is last; two independent writes are byte-identical for EVERY iteration order of the qualifier and extra-keyword maps; Parse(Build(Parse(t))) = Parse(t) for records of the C01 template family.",
             note="Compared fields: sequence, Locus, Definition/Accession/Version/Keywords/Source/Organism, references (Index assumed to be the position), Other, feature key / location structure / qualifier map. The 'independent reader' is the harness's column checks, not a second parser."),
}

na_reason = {}
for p in props:
    if p not in claimed:
        na_reason[p] = "check not built yet (engine features under construction); see DESIGN.md section 8"

checks = []
for p in props:
    if p in claimed:
        c = claimed[p]
        checks.append({
            "property_id": p,
            "quick_cmd": f"./check.sh {p} quick",
            "thorough_cmd": f"./check.sh {p} thorough",
            "evidence_file": f"/verif/evidence/{p}.json",
            "replay_cmd_template": "./check.sh replay {path}",
            "engine": "polysym",
            "level_claimed": {"category": "model_checking", "text": c["text"], "design_ref": c["design"]},
            "level_note": BASE_NOTE + c["note"],
            "technique": c.get("tech", TECH),
        })

m = {
 "version": 1,
 "setup_cmd": "cd /verif/engine && GOFLAGS=-mod=mod GOPROXY=off GOSUMDB=off GOTOOLCHAIN=local go build -o /verif/bin/polysym .",
 "hooks": {
  "guard": "verif_sym",
  "enable": "no hook commits: harness files (/verif/harness/<pkg>/zz_verif_*.go, build tags verif_sym for the engine / verif_native for replay) are injected in-package through go/packages and `go test -overlay`; /repo is only read",
  "baseline_off_cmd": "cd /repo && GOFLAGS=-mod=mod GOPROXY=off go test -vet=off -count=1 -timeout 25m ./...",
  "source_commits": [],
  "add_only": True
 },
 "engines": [{"name": "polysym", "path": "/verif/engine", "serves_properties": sorted(claimed), "kind_free_text": "symbolic executor for go/ssa (decision-prefix DFS, concrete lengths, symbolic bytes/ints) emitting SMT-LIB2 to z3; native replay through go test -overlay"}],
 "checks": checks,
 "not_applicable": [{"property_id": p, "reason": na_reason[p]} for p in props if p in na_reason],
 "notes": "Exit codes of check.sh: 0 held on everything explored (KNOWN-FINDING lines possible), 1 VIOLATION (replayed natively), 3 INCONCLUSIVE (unsupported construct / solver unknown / budget / vacuity), 4 ENGINE-MISMATCH (a counterexample or selftest did not reproduce natively)."
}
json.dump(m, open(os.path.join(V, 'MANIFEST.json'), 'w'), indent=1)
print("claimed:", sorted(claimed), "na:", sorted(na_reason))
